//! `seqx` for pico: depth-first enumeration of every contract-respecting operation history over a
//! small alphabet, replayed on a fresh real database, judged after every operation by the
//! reference model.

use crate::alloc::{Liveness, liveness};
use crate::model::Model;
use crate::program::*;
use pico::{Database, MemoRef, RetainedQuery, clear_retain, retain};
use serde::{Deserialize, Serialize};
use std::collections::BTreeSet;
use std::panic::{AssertUnwindSafe, catch_unwind};

#[derive(Debug, Clone, Copy, PartialEq, Eq, PartialOrd, Ord, Hash, Serialize, Deserialize)]
pub enum Op {
    Set(u8, u8),
    Remove(u8),
    SetSingle(u8),
    RemoveSingle,
    MapInsert(u8),
    MapRemove(u8),
    Call(Node),
    /// call the node at top level and retain the returned MemoRef
    Retain(Node),
    ClearRetain(u8),
    NeverGc(u8),
    Gc,
}

#[derive(Debug, Clone, Copy, PartialEq, Eq, Serialize, Deserialize)]
pub enum Alphabet {
    Full,
    /// sources + singleton + plain calls (no GC, no interning)
    Sources,
    /// interning + GC + retention
    InternGc,
    /// tracked map
    Tracked,
    /// three-level chain whose middle collapses values (backdating), one key
    Backdate,
}

pub fn alphabet(a: Alphabet) -> Vec<Op> {
    use F::*;
    let mut ops = vec![];
    let calls = |fs: &[(F, &[u8])]| -> Vec<Op> { fs.iter().flat_map(|(f, args)| args.iter().map(move |a| Op::Call(Node(*f, *a)))).collect() };
    match a {
        Alphabet::Full => {
            for k in 0..2 {
                for v in 0..3 {
                    ops.push(Op::Set(k, v));
                }
            }
            ops.extend([Op::Remove(0), Op::Remove(1), Op::SetSingle(1), Op::SetSingle(2), Op::RemoveSingle]);
            ops.extend([Op::MapInsert(0), Op::MapInsert(1), Op::MapRemove(0), Op::MapRemove(1)]);
            ops.extend(calls(&[
                (Leaf, &[0, 1]),
                (Parity, &[0, 1]),
                (DepParity, &[0, 1]),
                (Sing, &[0]),
                (SingPlus, &[0, 1]),
                (SumTracked, &[0]),
                (Owned, &[1, 2]),
                (Borrowed, &[1, 2]),
                (ViaMemoRef, &[0, 1]),
                (Interned, &[0, 1]),
                (Tuple, &[0, 1]),
                (Second, &[0, 1]),
                (Outer, &[0, 1]),
                (Nth, &[0, 1]),
                (Pair, &[0, 1]),
            ]));
            ops.extend([Op::Retain(Node(Leaf, 0)), Op::Retain(Node(Outer, 0)), Op::Retain(Node(Outer, 1)), Op::Retain(Node(SumTracked, 0))]);
            ops.extend([Op::ClearRetain(0), Op::ClearRetain(1), Op::NeverGc(0), Op::Gc]);
        }
        Alphabet::Sources => {
            for k in 0..2 {
                for v in 0..3 {
                    ops.push(Op::Set(k, v));
                }
            }
            ops.extend([Op::Remove(0), Op::SetSingle(1), Op::SetSingle(2), Op::RemoveSingle]);
            ops.extend(calls(&[(Leaf, &[0, 1]), (Parity, &[0]), (DepParity, &[0, 1]), (Sing, &[0]), (SingPlus, &[0, 1]), (Owned, &[1]), (Borrowed, &[1]), (ViaMemoRef, &[0])]));
        }
        Alphabet::InternGc => {
            ops.extend([Op::Set(0, 0), Op::Set(0, 1), Op::Set(0, 2), Op::Set(1, 0), Op::Set(1, 1)]);
            ops.extend(calls(&[(Leaf, &[0]), (Interned, &[0, 1]), (Tuple, &[0]), (Second, &[0, 1]), (Outer, &[0, 1]), (DepParity, &[0]), (Pair, &[0])]));
            ops.extend([Op::Retain(Node(Outer, 0)), Op::Retain(Node(Second, 1)), Op::ClearRetain(0), Op::NeverGc(0), Op::Gc]);
        }
        Alphabet::Backdate => {
            ops.extend([Op::Set(0, 0), Op::Set(0, 1), Op::Set(0, 2), Op::SetSingle(1)]);
            ops.extend(calls(&[(Leaf, &[0]), (Parity, &[0]), (DepParity, &[0]), (SingPlus, &[0])]));
        }
        Alphabet::Tracked => {
            ops.extend([Op::Set(0, 0), Op::Set(0, 1), Op::Set(1, 1), Op::Set(1, 2), Op::Remove(0), Op::Remove(1)]);
            ops.extend([Op::MapInsert(0), Op::MapInsert(1), Op::MapRemove(0), Op::MapRemove(1)]);
            ops.extend(calls(&[(SumTracked, &[0]), (Leaf, &[0]), (SingPlus, &[1])]));
            ops.extend([Op::SetSingle(1), Op::Retain(Node(SumTracked, 0)), Op::ClearRetain(0), Op::Gc]);
        }
    }
    ops
}

/// Root states: a prefix history applied before exploration starts.
pub fn root_prefix(root: u8) -> Vec<Op> {
    use F::*;
    match root {
        0 => vec![],
        // warmed database: every source set, every function called once
        1 => {
            let mut v = vec![Op::Set(0, 0), Op::Set(1, 1), Op::SetSingle(1), Op::MapInsert(0)];
            for f in [DepParity, SingPlus, SumTracked, Owned, Borrowed, ViaMemoRef, Interned, Outer] {
                v.push(Op::Call(Node(f, if matches!(f, Sing | SumTracked) { 0 } else { 1 })));
            }
            v.push(Op::Call(Node(Outer, 0)));
            v.push(Op::Call(Node(DepParity, 0)));
            // the most recent top-level call (kept by a GC at any LRU capacity): a call whose inner calls
            // share their first parameter with it
            v.push(Op::Call(Node(Pair, 0)));
            v
        }
        _ => panic!("unknown root"),
    }
}

#[derive(Debug, Clone, Serialize, Deserialize)]
pub struct Failure {
    #[serde(default)]
    pub detail: String,
    pub class: String,
    pub property: String,
    pub what: String,
    pub step: usize,
}

/// Read a `&String` handed out by pico only if both its header and its buffer are live.
pub fn checked_string(r: &String) -> Result<String, String> {
    let addr = r as *const String as usize;
    match liveness(addr, std::mem::size_of::<String>()) {
        Liveness::Freed => return Err(format!("String header at {addr:#x} is in freed memory")),
        Liveness::Live | Liveness::Unknown => {}
    }
    if r.capacity() > 0 {
        let buf = r.as_ptr() as usize;
        if liveness(buf, r.len()) == Liveness::Freed {
            return Err(format!("String buffer at {buf:#x} is in freed memory"));
        }
    }
    Ok(r.clone())
}

fn checked_u8(r: &u8) -> Result<u8, String> {
    let addr = r as *const u8 as usize;
    match liveness(addr, 1) {
        Liveness::Freed => Err(format!("u8 at {addr:#x} is in freed memory")),
        _ => Ok(*r),
    }
}

enum Held {
    Str(MemoRef<String>),
    U8(MemoRef<u8>),
}

pub struct Run {
    pub db: TDb,
    pub model: Model,
    pending_retains: Vec<(Node, RetainedQuery)>,
    /// references obtained from results: (owner node, owner execution count when obtained, ref, value read then)
    held: Vec<(Node, u64, Held, Val)>,
    pub failures: Vec<Failure>,
    pub steps: usize,
    pub executions_seen: usize,
    /// observation vector of this history (for outcome counting)
    pub observations: Vec<String>,
    /// did any call return a value different from what the same node returned earlier in this history, or follow a GC?
    pub discriminating: bool,
}

impl Drop for Run {
    fn drop(&mut self) {
        for (_, r) in self.pending_retains.drain(..) {
            r.never_garbage_collect();
        }
    }
}

impl Run {
    pub fn new(lru: usize) -> Run {
        Run { db: TDb::new(lru), model: Model::new(lru), pending_retains: vec![], held: vec![], failures: vec![], steps: 0, executions_seen: 0, observations: vec![], discriminating: false }
    }

    pub fn enabled(&self, op: Op) -> bool {
        let p = &self.model.plain;
        match op {
            Op::Set(..) | Op::SetSingle(_) | Op::Gc => true,
            Op::Remove(k) => p.ins.contains_key(&k) && !p.map.contains(&k),
            Op::RemoveSingle => p.single.is_some(),
            Op::MapInsert(k) => p.ins.contains_key(&k) && !p.map.contains(&k),
            Op::MapRemove(k) => p.map.contains(&k),
            Op::Call(n) | Op::Retain(n) => p.callable(n),
            Op::ClearRetain(i) | Op::NeverGc(i) => (i as usize) < self.pending_retains.len(),
        }
    }

    fn fail_uaf(&mut self, identity: &str, what: String) {
        let detail = self.model.dangling_class(identity).to_string();
        self.failures.push(Failure { detail, class: "uaf".to_string(), property: "C03".to_string(), what, step: self.steps });
    }

    fn fail(&mut self, property: &str, class: &str, what: String) {
        self.failures.push(Failure { detail: String::new(), class: class.to_string(), property: property.to_string(), what, step: self.steps });
    }

    /// the real top-level call; returns (value read from the result, MemoRef for retention)
    fn real_call(&self, n: Node) -> Result<(Val, Option<Held>), String> {
        let db = &self.db;
        let Node(f, a) = n;
        let id = id_of(a);
        // every lookup below goes through a liveness check before the bytes are read
        let r = catch_unwind(AssertUnwindSafe(|| -> Result<(Val, Option<Held>), String> {
            Ok(match f {
                F::Leaf => (Val::U8(checked_u8(leaf(db, id).lookup(db))?), None),
                F::Parity => (Val::U8(checked_u8(parity(db, id).lookup(db))?), None),
                F::DepParity => (Val::U8(checked_u8(dep_parity(db, id))?), None),
                F::Sing => (Val::Opt(*sing(db).lookup(db)), None),
                F::SingPlus => (Val::U8(checked_u8(sing_plus(db, id).lookup(db))?), None),
                F::SumTracked => (Val::Vec(sum_tracked(db).lookup(db).clone()), None),
                F::Owned => (Val::U8(checked_u8(owned(db, a).lookup(db))?), None),
                F::Borrowed => (Val::Usize(*borrowed(db, &"x".repeat(a as usize))), None),
                F::ViaMemoRef => {
                    let m = leaf(db, id);
                    (Val::U8(checked_u8(via_memo_ref(db, m, a).lookup(db))?), None)
                }
                F::Interned => {
                    let m = *interned(db, id).lookup(db);
                    (Val::U8(checked_u8(m.lookup(db))?), Some(Held::U8(m)))
                }
                F::Tuple => {
                    let t = tuple(db, id).lookup(db);
                    (Val::Tup(t.0, checked_string(&t.1)?), None)
                }
                F::Second => {
                    let m = *second(db, id).lookup(db);
                    (Val::Str(checked_string(m.lookup(db))?), Some(Held::Str(m)))
                }
                F::Outer => (Val::Usize(*outer(db, id).lookup(db)), None),
                F::Nth => (Val::U8(checked_u8(nth(db, id_of(a / 2), a % 2).lookup(db))?), None),
                F::Pair => (Val::U8(checked_u8(pair(db, id).lookup(db))?), None),
            })
        }));
        match r {
            Err(p) => Err(format!("panic: {}", mc_core::panic_message(&*p))),
            Ok(Err(e)) => Err(format!("use-after-free: {e}")),
            Ok(Ok((v, held))) => Ok((v, held)),
        }
    }

    fn retain_handle(&self, n: Node) -> RetainedQuery {
        let db = &self.db;
        let id = id_of(n.1);
        match n.0 {
            F::Leaf => retain(db, leaf(db, id)),
            F::Outer => retain(db, outer(db, id)),
            F::Pair => retain(db, pair(db, id)),
            F::Second => retain(db, second(db, id)),
            F::SumTracked => retain(db, sum_tracked(db)),
            _ => panic!("harness: Retain of {n:?} not wired"),
        }
    }

    /// which user-level top-level calls does `Call(n)` make, in order
    fn user_calls(n: Node) -> Vec<Node> {
        match n.0 {
            F::ViaMemoRef => vec![Node(F::Leaf, n.1), n],
            _ => vec![n],
        }
    }

    fn do_call(&mut self, n: Node, retain_it: bool) {
        let _ = take_trace();
        for c in Self::user_calls(n) {
            self.model.user_call(c);
        }
        let before_value = self.model.nodes.get(&n).filter(|s| s.cached).map(|s| s.value.clone());
        let gcs_before = self.model.gcs;
        let result = self.real_call(n);
        let mut retained = None;
        let result_ok = result.is_ok();
        if retain_it && result_ok {
            // a second top-level call of the same node (served from cache) to obtain the MemoRef
            self.model.user_call(n);
            match catch_unwind(AssertUnwindSafe(|| self.retain_handle(n))) {
                Ok(h) => retained = Some(h),
                Err(p) => self.fail("C01", "panic", format!("retain({n:?}) panicked: {}", mc_core::panic_message(&*p))),
            }
        }
        let trace = take_trace();
        if std::env::var("PICO_MC_TRACE").is_ok() {
            eprintln!("step {} {:?}: {:?}", self.steps, n, trace);
        }
        self.executions_seen += trace.iter().filter(|e| matches!(e, Ev::Enter(_))).count();
        let expected = self.model.plain.eval(n);
        for e in &trace {
            if let Ev::Uaf(second, msg) = e {
                let identity = match self.model.nodes.get(second).map(|s| &s.value) {
                    Some(Val::Str(s)) => s.clone(),
                    _ => String::new(),
                };
                self.fail_uaf(&identity, format!("body of Outer read the MemoRef returned by {second:?}: {msg}"));
            }
        }
        match self.model.consume(&trace) {
            Ok(bad) => {
                for u in bad {
                    let class = if self.model.gcs > 0 { "unpermitted-exec-after-gc" } else { "unpermitted-exec" };
                    self.fail("C02/C03", class, format!("{:?} executed although {}", u.node, u.reason));
                }
            }
            Err(e) => {
                if result_ok {
                    self.fail("MACHINERY", "trace", e);
                }
            }
        }
        match result {
            Ok((v, held)) => {
                let v = &v;
                if let Some(h) = held {
                    let execs = self.model.nodes.get(&n).map(|s| s.executions).unwrap_or(0);
                    self.held.push((n, execs, h, v.clone()));
                }
                if *v != expected {
                    self.fail("C01", "wrong-value", format!("{n:?} returned {v:?}, from-scratch evaluation gives {expected:?}"));
                }
                if before_value.as_ref().is_some_and(|b| *b != expected) || gcs_before > 0 {
                    self.discriminating = true;
                }
                self.observations.push(format!("{v:?}/{}", trace.iter().filter(|e| matches!(e, Ev::Enter(_))).count()));
            }
            Err(ref e) => {
                if e.starts_with("use-after-free") {
                    let identity = match &expected {
                        Val::Str(s) => s.clone(),
                        Val::Tup(_, s) => s.clone(),
                        _ => String::new(),
                    };
                    self.fail_uaf(&identity, format!("{n:?}: {e}"));
                } else {
                    self.fail("C01", "panic", format!("{n:?}: {e}"));
                }
                self.observations.push("ERR".to_string());
            }
        }
        if let Some(h) = retained {
            self.model.retain(n);
            self.pending_retains.push((n, h));
        }
    }

    /// C03: references obtained from results that the model still considers cached and unchanged
    /// must read their original value.
    fn check_held(&mut self) {
        let mut fails = vec![];
        for (owner, execs, h, orig) in &self.held {
            let st = match self.model.nodes.get(owner) {
                Some(st) if st.cached && st.executions == *execs => st,
                _ => continue,
            };
            let _ = st;
            let db = &self.db;
            let r = catch_unwind(AssertUnwindSafe(|| match h {
                Held::Str(m) => checked_string(m.lookup(db)).map(Val::Str),
                Held::U8(m) => checked_u8(m.lookup(db)).map(Val::U8),
            }));
            match r {
                Err(p) => fails.push(("C03", "held-ref-panic", format!("reference obtained from {owner:?} (still cached): lookup panicked: {}", mc_core::panic_message(&*p)))),
                Ok(Err(e)) => {
                    let identity = if let Val::Str(s) = orig { s.clone() } else { String::new() };
                    fails.push(("C03", "uaf", format!("{identity}\u{1}reference obtained from {owner:?} (still cached): {e}")))
                }
                Ok(Ok(v)) => {
                    if v != *orig {
                        fails.push(("C03", "held-ref-value", format!("reference obtained from {owner:?} read {orig:?} originally, now {v:?}")));
                    }
                }
            }
        }
        for (p, c, w) in fails {
            if c == "uaf" {
                let (identity, w) = w.split_once('\u{1}').unwrap();
                self.fail_uaf(identity, w.to_string());
            } else {
                self.fail(p, c, w);
            }
        }
    }

    pub fn apply(&mut self, op: Op) {
        self.steps += 1;
        match op {
            Op::Set(k, v) => {
                if self.model.plain.ins.get(&k) != Some(&v) {
                    self.model.bump(Src::In(k));
                }
                self.model.plain.ins.insert(k, v);
                self.db.set(In { key: k, val: v });
            }
            Op::Remove(k) => {
                self.model.plain.ins.remove(&k);
                self.model.bump(Src::In(k));
                self.db.remove(id_of(k));
            }
            Op::SetSingle(v) => {
                if self.model.plain.single != Some(v) {
                    self.model.bump(Src::Single);
                }
                self.model.plain.single = Some(v);
                self.db.set(Single { val: v });
            }
            Op::RemoveSingle => {
                self.model.plain.single = None;
                self.model.bump(Src::Single);
                self.db.remove_singleton::<Single>();
            }
            Op::MapInsert(k) => {
                self.model.plain.map.insert(k);
                self.model.bump(Src::MapCounter);
                self.db.map_insert(k, id_of(k));
            }
            Op::MapRemove(k) => {
                self.model.plain.map.remove(&k);
                self.model.bump(Src::MapCounter);
                self.db.map_remove(k);
            }
            Op::Call(n) => self.do_call(n, false),
            Op::Retain(n) => self.do_call(n, true),
            Op::ClearRetain(i) => {
                let (n, h) = self.pending_retains.remove(i as usize);
                self.model.clear_retain(n);
                clear_retain(&self.db, h);
            }
            Op::NeverGc(i) => {
                let (_, h) = self.pending_retains.remove(i as usize);
                h.never_garbage_collect();
            }
            Op::Gc => {
                let r = catch_unwind(AssertUnwindSafe(|| self.db.run_garbage_collection()));
                if let Err(p) = r {
                    self.fail("C03", "gc-panic", format!("run_garbage_collection panicked: {}", mc_core::panic_message(&*p)));
                }
                self.model.gc();
                self.check_held();
            }
        }
    }
}

#[derive(Debug, Default, Serialize, Deserialize)]
pub struct ShardStats {
    pub histories: u64,
    pub prefixes: u64,
    pub ops_applied: u64,
    pub executions: u64,
    pub discriminating: u64,
    pub outcomes: BTreeSet<u64>,
    pub failures: Vec<(Vec<Op>, Failure)>,
    pub samples: Vec<Vec<Op>>,
}

fn hash_obs(obs: &[String]) -> u64 {
    let mut h: u64 = 0xcbf29ce484222325;
    for s in obs {
        for b in s.bytes() {
            h ^= b as u64;
            h = h.wrapping_mul(0x100000001b3);
        }
        h ^= 0xff;
        h = h.wrapping_mul(0x100000001b3);
    }
    h
}

/// Execute one history on a fresh database. Returns the run (with failures) — the history is cut
/// at the first operation that is not enabled (returns None in that case).
pub fn run_history(lru: usize, root: u8, hist: &[Op]) -> Option<Run> {
    crate::alloc::start_tracking();
    let mut run = Run::new(lru);
    for op in root_prefix(root) {
        assert!(run.enabled(op), "root prefix not enabled");
        run.apply(op);
    }
    // failures inside the root prefix are reported once (as history []), keep them
    for op in hist {
        if !run.enabled(*op) {
            drop(run);
            crate::alloc::stop_and_flush();
            return None;
        }
        run.apply(*op);
    }
    Some(run)
}

pub fn finish_run(run: Run) {
    drop(run);
    crate::alloc::stop_and_flush();
}

/// Enumerate all enabled histories of exactly `depth` ops extending `prefix` (every proper prefix
/// is judged on the way, since the oracle runs after every operation).
pub fn explore(lru: usize, root: u8, alpha: &[Op], prefix: &[Op], depth: usize, stats: &mut ShardStats, max_fail: usize) {
    // enabledness depends only on the model; compute it by running the prefix once
    let mut stack: Vec<Vec<Op>> = vec![prefix.to_vec()];
    while let Some(h) = stack.pop() {
        let Some(run) = run_history(lru, root, &h) else { continue };
        stats.prefixes += 1;
        stats.ops_applied += run.steps as u64;
        if h.len() == depth || h.len() == prefix.len() && depth < prefix.len() {
            stats.histories += 1;
        }
        if h.len() >= depth {
            stats.executions += run.executions_seen as u64;
            if run.discriminating {
                stats.discriminating += 1;
            }
            stats.outcomes.insert(hash_obs(&run.observations));
            if stats.samples.len() < 3 || (stats.histories % 100_000 == 0 && stats.samples.len() < 8) {
                stats.samples.push(h.clone());
            }
        }
        let failed = !run.failures.is_empty();
        if failed {
            // attribute to the shortest prefix: failures carry their step; only record when the
            // failing step is the last op (otherwise the shorter prefix already reported it)
            let root_len = root_prefix(root).len();
            for f in &run.failures {
                if f.step == root_len + h.len() || (h.len() == prefix.len() && f.step <= root_len + h.len()) {
                    if stats.failures.len() < max_fail {
                        stats.failures.push((h.clone(), f.clone()));
                    }
                }
            }
        }
        let enabled: Vec<Op> = if h.len() < depth { alpha.iter().copied().filter(|op| run.enabled(*op)).collect() } else { vec![] };
        finish_run(run);
        // do not extend failing histories: their suffixes would re-report the same state corruption
        if failed {
            continue;
        }
        for op in enabled.into_iter().rev() {
            let mut n = h.clone();
            n.push(op);
            stack.push(n);
        }
    }
}

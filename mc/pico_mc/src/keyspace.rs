//! C04 — distinct memoized functions never share cached results.
//!
//! (a) A generated family of `#[memo]` functions — {module a,b} × {name f,g} × 5 parameter lists ×
//!     2 return types = 40 functions, each returning its own index — is checked for **every ordered
//!     pair**: fresh database, call i, call j, call i; the three values must be i, j, i.
//! (b) Every `#[memo]` function of /repo/crates is found with `syn`; pairs whose signature token
//!     text is identical are textual collisions that only the macro's per-function key can keep
//!     apart. They are reported as violations iff (a) observed that same-signature functions in
//!     different modules collide.

use mc_core::*;
use pico::{Database, MemoRef, SourceId, Storage};
use pico_macros::{Db, Source, memo};
use quote::ToTokens;
use serde_json::json;
use std::collections::BTreeMap;

#[derive(Db, Default)]
pub struct KDb {
    pub storage: Storage<Self>,
}

#[derive(Debug, Clone, PartialEq, Eq, Source)]
pub struct KIn {
    #[key]
    pub key: u8,
    pub val: u8,
}

/// a newtype whose `Hash` is identical to its field's
#[derive(Debug, Clone, PartialEq, Eq, Hash)]
pub struct W8(pub u8);

#[memo(raw)]
pub fn helper_raw(_db: &KDb) -> u8 {
    5
}

pub type Caller = fn(&KDb, SourceId<KIn>) -> String;

#[path = "family.rs"]
mod family;
use family::family;

/// features in which two family members differ
fn relation(a: &str, b: &str) -> String {
    let pa: Vec<&str> = a.split("::").collect();
    let pb: Vec<&str> = b.split("::").collect();
    let mut d = vec![];
    if pa[0] != pb[0] {
        d.push("signature");
    }
    if pa[1] != pb[1] {
        d.push("module");
    }
    if pa[2] != pb[2] {
        d.push("name");
    }
    d.join("+")
}

struct MemoFn {
    file: String,
    module: String,
    name: String,
    sig_text: String,
    db_type: String,
}

fn scan_repo() -> Vec<MemoFn> {
    struct V {
        file: String,
        module: Vec<String>,
        out: Vec<MemoFn>,
    }
    impl<'ast> syn::visit::Visit<'ast> for V {
        fn visit_item_mod(&mut self, m: &'ast syn::ItemMod) {
            self.module.push(m.ident.to_string());
            syn::visit::visit_item_mod(self, m);
            self.module.pop();
        }
        fn visit_item_fn(&mut self, f: &'ast syn::ItemFn) {
            if f.attrs.iter().any(|a| a.path().segments.last().is_some_and(|s| s.ident == "memo")) {
                let db_type = match f.sig.inputs.first() {
                    Some(syn::FnArg::Typed(p)) => p.ty.to_token_stream().to_string(),
                    _ => "?".to_string(),
                };
                self.out.push(MemoFn { file: self.file.clone(), module: self.module.join("::"), name: f.sig.ident.to_string(), sig_text: f.sig.to_token_stream().to_string(), db_type });
            }
            syn::visit::visit_item_fn(self, f);
        }
    }
    let mut out = vec![];
    for e in walkdir::WalkDir::new("/repo/crates").into_iter().filter_map(|e| e.ok()) {
        let p = e.path();
        if p.extension().is_none_or(|x| x != "rs") || !p.to_string_lossy().contains("/src/") {
            continue;
        }
        let Ok(text) = std::fs::read_to_string(p) else { continue };
        let Ok(file) = syn::parse_file(&text) else { continue };
        let mut v = V { file: p.display().to_string(), module: vec![], out: vec![] };
        syn::visit::Visit::visit_file(&mut v, &file);
        out.extend(v.out);
    }
    out
}

pub fn main(args: &Args) -> i32 {
    quiet_panics();
    let mut ev = Evidence::new(args, "exploration");
    let fam = family();
    let mut verdict = Verdict::new("C04");
    let mut pairs = 0u64;
    let mut observed: BTreeMap<String, (u64, u64)> = BTreeMap::new(); // relation -> (pairs, collisions)
    let mut samples = vec![];
    let run_pair = |i: usize, j: usize| -> Result<(String, String, String), String> {
        std::panic::catch_unwind(|| {
            let mut db = KDb::default();
            let id = db.set(KIn { key: 1, val: 1 });
            let vi = (fam[i].2)(&db, id);
            let vj = (fam[j].2)(&db, id);
            let vi2 = (fam[i].2)(&db, id);
            (vi, vj, vi2)
        })
        .map_err(|p| panic_message(&*p))
    };
    if let Some(path) = &args.replay {
        let v = read_replay(path);
        let (i, j) = (v["case"]["i"].as_u64().unwrap() as usize, v["case"]["j"].as_u64().unwrap() as usize);
        let r = run_pair(i, j);
        println!("replay pair {} / {}: observed {:?}, expected ({}, {}, {})", fam[i].0, fam[j].0, r, fam[i].1, fam[j].1, fam[i].1);
        let ok = r == Ok((fam[i].1.to_string(), fam[j].1.to_string(), fam[i].1.to_string()));
        if !ok {
            println!("VIOLATION property=C04 replay={}", path.display());
        }
        return if ok { 0 } else { 1 };
    }
    for i in 0..fam.len() {
        for j in 0..fam.len() {
            if i == j {
                continue;
            }
            pairs += 1;
            let rel = relation(&fam[i].0, &fam[j].0);
            let e = observed.entry(rel.clone()).or_default();
            e.0 += 1;
            let want = (fam[i].1.to_string(), fam[j].1.to_string(), fam[i].1.to_string());
            let got = run_pair(i, j);
            if samples.len() < 3 {
                samples.push(json!({"first": fam[i].0, "second": fam[j].0, "observed": format!("{got:?}")}));
            }
            if got != Ok(want.clone()) {
                e.1 += 1;
                verdict.add(Violation {
                    signature: format!("family-collision:differ-in-{rel}"),
                    what: format!("calling {} then {} then {} returned {:?}, expected {:?}", fam[i].0, fam[j].0, fam[i].0, got, want),
                    case: json!({"i": i, "j": j, "first": fam[i].0, "second": fam[j].0}),
                });
            }
        }
    }
    // (b) the repository's own memoized functions
    let repo = scan_repo();
    let mut by_sig: BTreeMap<(String, String), Vec<&MemoFn>> = BTreeMap::new();
    for f in &repo {
        by_sig.entry((f.db_type.clone(), f.sig_text.clone())).or_default().push(f);
    }
    let textual: Vec<_> = by_sig.values().filter(|v| v.len() > 1).collect();
    let module_collides = observed.iter().any(|(rel, (_, c))| rel == "module" && *c > 0);
    for group in &textual {
        if module_collides {
            verdict.add(Violation {
                signature: format!("repo-collision:{}", group[0].name),
                what: format!("#[memo] functions with identical signature text `{}` in {} — the macro's key does not separate same-signature functions in different modules", group[0].sig_text, group.iter().map(|f| format!("{}::{} ({})", f.module, f.name, f.file)).collect::<Vec<_>>().join(" and ")),
                case: json!({"i": 0, "j": 2, "repo_functions": group.iter().map(|f| format!("{}:{}", f.file, f.name)).collect::<Vec<_>>()}),
            });
        }
    }
    if repo.len() < 20 {
        machinery_error(&format!("repo scan found only {} #[memo] functions — scanner broken?", repo.len()));
    }
    let (code, n_new, known) = verdict.conclude("pico_mc/keyspace");
    ev.violations = n_new as i64;
    let distinct_vals: std::collections::BTreeSet<u32> = fam.iter().map(|f| f.1).collect();
    ev.set("evaluations", pairs)
        .set("distinct_nontrivial", pairs)
        .set("rule", "every ordered pair (i,j), i≠j, of the family {module a,b}×{name f,g}×{(),(u8),(i8),(W8),(&W8),(&String),(SourceId),(MemoRef)}×{u32,String} + 2 function-local scopes: fresh db, call i, j, i; every pair is non-trivial (two different functions with different results)")
        .set("family_size", fam.len())
        .set("family_distinct_results", distinct_vals.len())
        .set("relations_observed", json!(observed.iter().map(|(k, v)| json!({"differ_in": k, "pairs": v.0, "collisions": v.1})).collect::<Vec<_>>()))
        .set("repo_memo_functions", repo.len())
        .set("repo_textually_identical_signature_groups", json!(textual.iter().map(|g| g.iter().map(|f| format!("{}::{}", f.module, f.name)).collect::<Vec<_>>()).collect::<Vec<_>>()))
        .set("samples", json!(samples))
        .set("known_findings_reobserved", json!(known))
        .set("exhaustive", true);
    ev.assume("all Rust programs cannot be enumerated: the family spans the dimensions the macro's key is computed from (module, name, parameter list, return type); function-local scopes and generic functions are not in the family");
    ev.write();
    println!("pico_mc C04: {} ordered pairs over {} functions, {} repo #[memo] fns, {} textual-collision groups, {} new violation signature(s)", pairs, fam.len(), repo.len(), textual.len(), n_new);
    code
}

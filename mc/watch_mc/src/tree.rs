//! The small project tree, the contents written into it, and the alphabet of file-system
//! operations. The abstract tree (`Tree`) mirrors what is on disk outside the artifact
//! directory; it decides which operations are enabled and keys the cache of fresh batch compiles.

use mc_core::machinery_error;
use serde::{Deserialize, Serialize};
use std::collections::BTreeMap;
use std::path::Path;

pub const CONFIG: &str = "isograph.config.json";
pub const SCHEMA: &str = "schema.graphql";
pub const EXT: &str = "ext.graphql";
pub const ARTIFACT_DIR: &str = "src/__isograph";
pub const STRAY: &str = "src/__isograph/stray.ts";

#[derive(Debug, Clone, Copy, PartialEq, Eq, PartialOrd, Ord, Hash, Serialize, Deserialize)]
pub enum Var {
    /// literal set 1: one client field selecting `count`, one entrypoint
    L1,
    /// literal set 2: two client fields (one of them on User), a nested selection, the exposed
    /// mutation field of the schema extension, one entrypoint
    L2,
    /// a source file without any iso literal
    NoLit,
    /// an iso literal that does not parse
    BadLit,
}

#[derive(Debug, Clone, Copy, PartialEq, Eq, PartialOrd, Ord, Hash, Serialize, Deserialize)]
pub enum Content {
    /// source text declaring client fields named after `ident` (so that files never collide)
    Src(char, Var),
    /// bytes that are not UTF-8
    Bin,
    Schema(u8),
    Ext(u8),
    Config,
}

impl Content {
    pub fn bytes(&self) -> Vec<u8> {
        match self {
            Content::Src(id, var) => source_text(*id, *var).into_bytes(),
            Content::Bin => vec![0xff, 0xfe, 0x00, 0x80, b'i', b's', b'o', 0xc3, 0x28],
            Content::Schema(v) => schema_text(*v).into_bytes(),
            Content::Ext(v) => ext_text(*v).into_bytes(),
            Content::Config => config_text().into_bytes(),
        }
    }
    pub fn label(&self) -> String {
        match self {
            Content::Src(id, var) => format!("{id}:{var:?}"),
            Content::Bin => "binary".into(),
            Content::Schema(v) => format!("schema{v}"),
            Content::Ext(v) => format!("ext{v}"),
            Content::Config => "config".into(),
        }
    }
}

fn source_text(id: char, var: Var) -> String {
    let f = format!("F{id}");
    match var {
        Var::L1 => format!(
            "import {{ iso }} from '@iso';\n\nexport const {f} = iso(`\n  field Query.{f} {{\n    count\n  }}\n`)(function C({{ data }}) {{ return data; }});\n\nconst e_{f} = iso(`entrypoint Query.{f}`);\n"
        ),
        Var::L2 => {
            // the file that lives in src/ab additionally selects the client field of src/a/x.ts
            let cross = if id == 'y' { "    Fx\n" } else { "" };
            format!(
                "import {{ iso }} from '@iso';\n\nexport const {f} = iso(`\n  field Query.{f} {{\n{cross}    me {{\n      id\n      {f}2\n      set_name\n    }}\n  }}\n`)(function C({{ data }}) {{ return data; }});\n\nexport const {f}2 = iso(`\n  field User.{f}2 {{\n    name\n  }}\n`)(function C({{ data }}) {{ return data; }});\n\nconst e_{f} = iso(`entrypoint Query.{f}`);\n"
            )
        }
        Var::NoLit => format!("// {f}\nexport const nothing_{f} = 1;\n"),
        Var::BadLit => format!("import {{ iso }} from '@iso';\n\nexport const {f} = iso(`\n  field Query.{f} {{\n`)(function C({{ data }}) {{ return data; }});\n"),
    }
}

fn schema_text(v: u8) -> String {
    match v {
        1 | 2 => {
            let count_ty = if v == 1 { "Int" } else { "String" };
            format!(
                "type Query {{\n  count: {count_ty}\n  me: User\n}}\n\ntype User {{\n  id: ID!\n  name: String\n}}\n\ntype Mutation {{\n  set_name(id: ID!, name: String!): SetNameResponse!\n}}\n\ntype SetNameResponse {{\n  user: User!\n}}\n"
            )
        }
        _ => "type Query {\n  count: Int\n".to_string(),
    }
}

fn ext_text(v: u8) -> String {
    match v {
        1 => "extend type Mutation\n  @exposeField(field: \"set_name.user\", fieldMap: [{ from: \"id\", to: \"id\" }])\n".to_string(),
        // same exposed field, and one more type
        _ => "extend type Mutation\n  @exposeField(field: \"set_name.user\", fieldMap: [{ from: \"id\", to: \"id\" }])\n\ntype Unused {\n  v: Int\n}\n".to_string(),
    }
}

fn config_text() -> String {
    "{\n  \"project_root\": \"./src\",\n  \"schema\": \"./schema.graphql\",\n  \"schema_extensions\": [\"./ext.graphql\"],\n  \"options\": {}\n}\n".to_string()
}

#[derive(Debug, Clone, Copy, PartialEq, Eq, PartialOrd, Ord, Hash)]
pub enum Node {
    Dir,
    File(Content),
}

/// Everything on disk outside the artifact directory, by path relative to the project directory.
#[derive(Debug, Clone, PartialEq, Eq, PartialOrd, Ord, Hash)]
pub struct Tree(pub BTreeMap<String, Node>);

pub fn parent(p: &str) -> &str {
    p.rfind('/').map(|i| &p[..i]).unwrap_or("")
}

impl Tree {
    pub fn initial() -> Tree {
        let mut t = BTreeMap::new();
        for d in ["out", "out/od", "src", "src/a", "src/ab"] {
            t.insert(d.to_string(), Node::Dir);
        }
        for (p, c) in [
            (CONFIG, Content::Config),
            (SCHEMA, Content::Schema(1)),
            (EXT, Content::Ext(1)),
            ("src/a/x.ts", Content::Src('x', Var::L1)),
            ("src/ab/y.ts", Content::Src('y', Var::L2)),
            ("src/n.txt", Content::Src('n', Var::NoLit)),
            ("src/b.bin", Content::Bin),
            ("out/o.ts", Content::Src('o', Var::L1)),
            ("out/od/w.ts", Content::Src('w', Var::L1)),
        ] {
            t.insert(p.to_string(), Node::File(c));
        }
        Tree(t)
    }
    pub fn is_dir(&self, p: &str) -> bool {
        p.is_empty() || matches!(self.0.get(p), Some(Node::Dir))
    }
    pub fn is_file(&self, p: &str) -> bool {
        matches!(self.0.get(p), Some(Node::File(_)))
    }
    pub fn exists(&self, p: &str) -> bool {
        self.0.contains_key(p)
    }
    /// paths strictly below `dir`
    pub fn below(&self, dir: &str) -> Vec<(String, Node)> {
        let prefix = format!("{dir}/");
        self.0.iter().filter(|(k, _)| k.starts_with(&prefix)).map(|(k, v)| (k.clone(), *v)).collect()
    }
    /// no two files below src/ declare the same client field
    pub fn duplicate_free(&self) -> bool {
        let mut seen = std::collections::BTreeSet::new();
        self.0.iter().all(|(p, n)| match n {
            Node::File(Content::Src(id, Var::L1 | Var::L2)) if p.starts_with("src/") => seen.insert(*id),
            _ => true,
        })
    }
    pub fn write_to(&self, root: &Path) {
        let _ = std::fs::remove_dir_all(root);
        std::fs::create_dir_all(root).unwrap_or_else(|e| machinery_error(&format!("mkdir {}: {e}", root.display())));
        for (p, n) in &self.0 {
            let r = match n {
                Node::Dir => std::fs::create_dir_all(root.join(p)),
                Node::File(c) => std::fs::write(root.join(p), c.bytes()),
            };
            r.unwrap_or_else(|e| machinery_error(&format!("writing {p}: {e}")));
        }
    }
    /// The real directory, read back (artifact directory excluded), as (path, None = dir | bytes).
    pub fn read_disk(root: &Path) -> BTreeMap<String, Option<Vec<u8>>> {
        fn walk(root: &Path, d: &Path, out: &mut BTreeMap<String, Option<Vec<u8>>>) {
            let Ok(rd) = std::fs::read_dir(d) else { return };
            for e in rd.flatten() {
                let p = e.path();
                let rel = p.strip_prefix(root).unwrap().to_string_lossy().to_string();
                if rel == ARTIFACT_DIR {
                    continue;
                }
                if p.is_dir() {
                    out.insert(rel, None);
                    walk(root, &p, out);
                } else {
                    out.insert(rel, Some(std::fs::read(&p).unwrap_or_default()));
                }
            }
        }
        let mut out = BTreeMap::new();
        walk(root, root, &mut out);
        out
    }
    pub fn as_disk(&self) -> BTreeMap<String, Option<Vec<u8>>> {
        self.0
            .iter()
            .map(|(p, n)| {
                (
                    p.clone(),
                    match n {
                        Node::Dir => None,
                        Node::File(c) => Some(c.bytes()),
                    },
                )
            })
            .collect()
    }
    pub fn render(&self) -> String {
        self.0
            .iter()
            .map(|(p, n)| match n {
                Node::Dir => format!("{p}/"),
                Node::File(c) => format!("{p}={}", c.label()),
            })
            .collect::<Vec<_>>()
            .join(" ")
    }
}

/// One letter of the alphabet. Paths are relative to the project directory.
#[derive(Debug, Clone, PartialEq, Eq, PartialOrd, Ord, Hash, Serialize, Deserialize)]
pub enum Op {
    /// create or overwrite in place (open with O_TRUNC, write, close)
    Write(String, Content),
    Delete(String),
    /// rename(2) of a file; the target may exist (it is replaced)
    Rename(String, String),
    /// write a temporary file outside the watched paths, then rename(2) it over the target
    /// ("atomic save" of editors)
    Replace(String, Content),
    Mkdir(String),
    /// mkdir and, within the same debounce window, a file written into the new folder
    MkdirWrite(String, String, Content),
    RmR(String),
    MvDir(String, String),
    /// a source-like file written inside the artifact directory
    Stray(Var),
    /// the 60-second garbage collection interval has elapsed
    Gc,
}

impl Op {
    pub fn is_fs(&self) -> bool {
        !matches!(self, Op::Gc)
    }

    /// Enabled = applicable to the tree, and the resulting tree does not hold two files below
    /// src/ declaring the same client field (the compiler's result for such a tree depends on a
    /// per-process hash seed, so it cannot serve as a reference).
    pub fn enabled(&self, t: &Tree) -> bool {
        if !self.applicable(t) {
            return false;
        }
        if matches!(self, Op::Write(..) | Op::Rename(..) | Op::MkdirWrite(..) | Op::MvDir(..) | Op::Replace(..)) {
            let mut t2 = t.clone();
            self.apply_abstract(&mut t2);
            return t2.duplicate_free();
        }
        true
    }

    fn applicable(&self, t: &Tree) -> bool {
        match self {
            Op::Write(p, _) | Op::Replace(p, _) => t.is_dir(parent(p)) && !t.is_dir(p),
            Op::Delete(p) => t.is_file(p),
            Op::Rename(a, b) => t.is_file(a) && t.is_dir(parent(b)) && !t.is_dir(b) && a != b,
            Op::Mkdir(d) => !t.exists(d) && t.is_dir(parent(d)),
            Op::MkdirWrite(d, f, _) => !t.exists(d) && t.is_dir(parent(d)) && parent(f) == d,
            Op::RmR(d) => t.is_dir(d) && !d.is_empty(),
            Op::MvDir(a, b) => t.is_dir(a) && !t.exists(b) && t.is_dir(parent(b)) && !b.starts_with(&format!("{a}/")),
            Op::Stray(_) => t.is_dir("src"),
            Op::Gc => true,
        }
    }

    pub fn apply_abstract(&self, t: &mut Tree) {
        match self {
            Op::Write(p, c) | Op::Replace(p, c) => {
                t.0.insert(p.clone(), Node::File(*c));
            }
            Op::Delete(p) => {
                t.0.remove(p);
            }
            Op::Rename(a, b) => {
                let n = t.0.remove(a).unwrap();
                t.0.insert(b.clone(), n);
            }
            Op::Mkdir(d) => {
                t.0.insert(d.clone(), Node::Dir);
            }
            Op::MkdirWrite(d, f, c) => {
                t.0.insert(d.clone(), Node::Dir);
                t.0.insert(f.clone(), Node::File(*c));
            }
            Op::RmR(d) => {
                for (p, _) in t.below(d) {
                    t.0.remove(&p);
                }
                t.0.remove(d);
            }
            Op::MvDir(a, b) => {
                for (p, n) in t.below(a) {
                    t.0.remove(&p);
                    t.0.insert(format!("{b}{}", &p[a.len()..]), n);
                }
                t.0.remove(a);
                t.0.insert(b.clone(), Node::Dir);
            }
            Op::Stray(_) | Op::Gc => {}
        }
    }

    /// Perform the operation on the real directory.
    pub fn apply_disk(&self, root: &Path) {
        let r: std::io::Result<()> = (|| {
            match self {
                Op::Write(p, c) => std::fs::write(root.join(p), c.bytes())?,
                Op::Delete(p) => std::fs::remove_file(root.join(p))?,
                Op::Rename(a, b) => std::fs::rename(root.join(a), root.join(b))?,
                Op::Replace(p, c) => {
                    // the temporary file lives next to the project directory, outside every watched path
                    let tmp = root.with_extension("tmp-save");
                    std::fs::write(&tmp, c.bytes())?;
                    std::fs::rename(&tmp, root.join(p))?;
                }
                Op::Mkdir(d) => std::fs::create_dir(root.join(d))?,
                Op::MkdirWrite(d, f, c) => {
                    std::fs::create_dir(root.join(d))?;
                    std::fs::write(root.join(f), c.bytes())?;
                }
                Op::RmR(d) => std::fs::remove_dir_all(root.join(d))?,
                Op::MvDir(a, b) => std::fs::rename(root.join(a), root.join(b))?,
                Op::Stray(v) => {
                    std::fs::create_dir_all(root.join(ARTIFACT_DIR))?;
                    std::fs::write(root.join(STRAY), Content::Src('s', *v).bytes())?;
                }
                Op::Gc => {}
            }
            Ok(())
        })();
        r.unwrap_or_else(|e| machinery_error(&format!("applying {self:?} to the disk: {e}")));
    }

    pub fn render(&self) -> String {
        match self {
            Op::Write(p, c) => format!("write({p},{})", c.label()),
            Op::Delete(p) => format!("delete({p})"),
            Op::Rename(a, b) => format!("rename({a}->{b})"),
            Op::Replace(p, c) => format!("replace-by-rename({p},{})", c.label()),
            Op::Mkdir(d) => format!("mkdir({d})"),
            Op::MkdirWrite(d, f, c) => format!("mkdir+write({d},{f},{})", c.label()),
            Op::RmR(d) => format!("rm-r({d})"),
            Op::MvDir(a, b) => format!("mvdir({a}->{b})"),
            Op::Stray(v) => format!("write-in-artifact-dir({v:?})"),
            Op::Gc => "gc".into(),
        }
    }
}

pub fn render_history(h: &[Op]) -> String {
    h.iter().map(|o| o.render()).collect::<Vec<_>>().join(" ; ")
}

/// The alphabet. `level` 0 = quick, 1 = thorough (a superset: the quick letters come first).
pub fn alphabet(level: usize) -> Vec<Op> {
    use Content::*;
    use Var::*;
    let s = |x: &str| x.to_string();
    let mut a = vec![];
    // source files: write with content classes
    for v in [L1, L2, BadLit] {
        a.push(Op::Write(s("src/a/x.ts"), Src('x', v)));
    }
    for v in [L1, L2] {
        a.push(Op::Write(s("src/ab/y.ts"), Src('y', v)));
    }
    // non-source and binary files
    a.push(Op::Write(s("src/n.txt"), Src('n', L1)));
    a.push(Op::Write(s("src/b.bin"), Bin));
    a.push(Op::Delete(s("src/a/x.ts")));
    a.push(Op::Delete(s("src/ab/y.ts")));
    // renames of files: within a folder, across sibling folders, over an existing file,
    // .txt -> .ts, out of the tree, into the tree
    a.push(Op::Rename(s("src/a/x.ts"), s("src/a/x2.ts")));
    a.push(Op::Rename(s("src/a/x.ts"), s("src/ab/x.ts")));
    a.push(Op::Rename(s("src/ab/y.ts"), s("src/a/x.ts")));
    a.push(Op::Rename(s("src/n.txt"), s("src/n.ts")));
    // a tracked source renamed to a name that is not a source
    a.push(Op::Rename(s("src/a/x.ts"), s("src/a/x.ts.bak")));
    a.push(Op::Rename(s("src/a/x.ts"), s("out/x.ts")));
    a.push(Op::Rename(s("out/o.ts"), s("src/o.ts")));
    // folders
    a.push(Op::Mkdir(s("src/c")));
    a.push(Op::Write(s("src/c/z.ts"), Src('z', L1)));
    a.push(Op::MkdirWrite(s("src/c"), s("src/c/z.ts"), Src('z', L1)));
    a.push(Op::RmR(s("src/a")));
    a.push(Op::RmR(s("src/ab")));
    a.push(Op::MvDir(s("src/a"), s("src/d")));
    a.push(Op::MvDir(s("src/a"), s("out/a")));
    a.push(Op::MvDir(s("out/od"), s("src/od")));
    // schema and extension: edit, delete, restore, atomic save
    a.push(Op::Write(s(SCHEMA), Schema(2)));
    a.push(Op::Delete(s(SCHEMA)));
    a.push(Op::Replace(s(SCHEMA), Schema(2)));
    a.push(Op::Write(s(EXT), Ext(1)));
    a.push(Op::Write(s(EXT), Ext(2)));
    a.push(Op::Delete(s(EXT)));
    // config, garbage collection
    a.push(Op::Write(s(CONFIG), Config));
    a.push(Op::Gc);
    if level >= 1 {
        a.push(Op::Write(s("src/a/x.ts"), Src('x', NoLit)));
        a.push(Op::Write(s("src/ab/y.ts"), Src('y', NoLit)));
        a.push(Op::Write(s("src/ab/y.ts"), Src('y', BadLit)));
        a.push(Op::Write(s("src/n.txt"), Src('n', NoLit)));
        a.push(Op::Write(s("src/a/x.ts"), Bin));
        a.push(Op::Delete(s("src/n.txt")));
        a.push(Op::Delete(s("src/b.bin")));
        a.push(Op::Rename(s("src/n.ts"), s("src/n.txt")));
        a.push(Op::Rename(s("src/b.bin"), s("src/b.ts")));
        a.push(Op::Rename(s("src/ab/x.ts"), s("src/a/x.ts")));
        a.push(Op::RmR(s("src/c")));
        a.push(Op::MvDir(s("src/ab"), s("src/d")));
        a.push(Op::MvDir(s("src/d"), s("src/a")));
        a.push(Op::Write(s(SCHEMA), Schema(1)));
        a.push(Op::Write(s(SCHEMA), Schema(3)));
        a.push(Op::Replace(s(EXT), Ext(2)));
        a.push(Op::Stray(L1));
    }
    a
}

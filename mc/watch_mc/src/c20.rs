//! C20 — watch mode produces what a fresh batch compile would; the watcher keeps running.
//!
//! Every history of letters (tree.rs) up to the depth bound, from two roots (the watch command's
//! state before / after its first compile), is executed on its own real `CompilerState` over a
//! real directory in /dev/shm (session.rs). After every step the session is compared with a fresh
//! `create_config` + `CompilerState::new` + `compile` of the same disk contents in an empty
//! directory. The verdict of a history is the verdict of its last step (every prefix is a history
//! of its own). When an earlier step of a history diverges, the watcher is restarted on the disk
//! as it is (what a user does) and the history goes on from the restarted state, so that a
//! divergence never taints the comparison of later steps.

use crate::events::{op_shape, render_events};
use crate::session::{Fresh, FreshCache, Obs, Session, Sources, StepResult, check_disk, fnv, read_artifacts};
use crate::tree::{Op, Tree, alphabet, render_history};
use mc_core::*;
use serde::{Deserialize, Serialize};
use serde_json::{Value, json};
use std::collections::{BTreeMap, BTreeSet};
use std::path::{Path, PathBuf};
use std::time::Duration;

#[derive(Debug, Clone, PartialEq, Eq, PartialOrd, Ord, Serialize, Deserialize)]
pub struct Case {
    /// false: the state right after `CompilerState::new`; true: after the first compile
    pub compiled_root: bool,
    pub history: Vec<Op>,
}

impl Case {
    pub fn render(&self) -> String {
        format!("root {}; history [{}]", if self.compiled_root { "after the first compile" } else { "before the first compile" }, render_history(&self.history))
    }
}

#[derive(Debug, Clone, Serialize, Deserialize)]
pub struct Failure {
    pub signature: String,
    pub what: String,
}

#[derive(Debug, Clone)]
pub enum Judgement {
    Agree,
    /// the watcher ended and a batch compile cannot load the project either
    AgreeTerminal,
    Diverge(Failure),
}

pub struct Ctx {
    pub watch_root: PathBuf,
    pub fresh: FreshCache,
    pub check_disk: bool,
    pub transitions: u64,
    pub resyncs: u64,
    /// histories whose last step shows the same result although the sources of the watch state
    /// differ from the disk
    pub latent: u64,
    /// what the watch directory holds (outside the artifact directory) after the last history
    on_disk: Option<Tree>,
    _scratch: Scratch,
}

impl Ctx {
    /// `shared`: the run's directory (owned and removed by the parent process, also when this
    /// process is killed): its `cache` holds the fresh results, `w` the workers' directories.
    pub fn new(tag: &str, shared: Option<PathBuf>) -> Ctx {
        let scratch = match &shared {
            Some(run) => {
                let p = run.join("w").join(format!("{tag}-{}", std::process::id()));
                std::fs::create_dir_all(&p).unwrap_or_else(|e| machinery_error(&format!("scratch: {e}")));
                Scratch(p)
            }
            None => Scratch::new(tag),
        };
        let shared = shared.map(|run| run.join("cache"));
        let watch_root = scratch.path().join("watch").join("proj");
        let fresh_root = scratch.path().join("fresh").join("proj");
        Ctx { watch_root, fresh: FreshCache::new(fresh_root, shared), check_disk: true, transitions: 0, resyncs: 0, latent: 0, on_disk: None, _scratch: scratch }
    }
}

fn is_source_name(p: &str) -> bool {
    p.contains('.') && matches!(p.rsplit('.').next(), Some("ts") | Some("tsx") | Some("js") | Some("jsx"))
}

/// Why the sources held by the watch state differ from those a fresh state reads: the narrow part
/// of a signature.
fn source_diff(watch: &Sources, fresh: Option<&Sources>, tree: &Tree, op: &Op) -> (String, Vec<String>) {
    let Some(fresh) = fresh else { return ("fresh-unreadable".into(), vec![]) };
    let mut kinds = BTreeSet::new();
    let mut details = vec![];
    let removed_folder = match op {
        Op::RmR(d) | Op::MvDir(d, _) => Some(d.as_str()),
        _ => None,
    };
    for p in watch.iso.keys().filter(|p| !fresh.iso.contains_key(*p)) {
        let k = if tree.is_file(p) {
            if is_source_name(p) { "extra:source-file-on-disk" } else { "extra:file-without-source-extension" }
        } else {
            "extra:file-not-on-disk"
        };
        kinds.insert(k.to_string());
        details.push(format!("{p} is a source of the watch state only ({k})"));
    }
    for p in fresh.iso.keys().filter(|p| !watch.iso.contains_key(*p)) {
        let k = match removed_folder {
            Some(d) if p.starts_with(d) && !p.starts_with(&format!("{d}/")) => "missing:file-in-sibling-folder-sharing-the-name-prefix",
            _ => "missing:source-file-on-disk",
        };
        kinds.insert(k.to_string());
        details.push(format!("{p} is on disk but not a source of the watch state ({k})"));
    }
    for (p, h) in &watch.iso {
        if fresh.iso.get(p).is_some_and(|f| f != h) {
            kinds.insert("stale-content".to_string());
            details.push(format!("{p}: the watch state holds a text that is not the one on disk"));
        }
    }
    if watch.schema != fresh.schema {
        let k = if watch.schema.is_none() { "schema-absent-in-watch-state" } else { "schema-stale" };
        kinds.insert(k.to_string());
        details.push(k.to_string());
    }
    if watch.extensions != fresh.extensions {
        let k = if watch.extensions.len() < fresh.extensions.len() {
            "extension-absent-in-watch-state"
        } else if watch.extensions.len() > fresh.extensions.len() {
            "extension-extra-in-watch-state"
        } else {
            "extension-stale"
        };
        kinds.insert(k.to_string());
        details.push(k.to_string());
    }
    if kinds.is_empty() {
        return ("sources-equal".into(), details);
    }
    (kinds.into_iter().collect::<Vec<_>>().join("+"), details)
}

fn obs_difference(watch: &Obs, fresh: &Obs) -> String {
    match (watch, fresh) {
        (Obs::Ok(a), Obs::Ok(b)) => {
            let (ma, mb): (BTreeMap<_, _>, BTreeMap<_, _>) = (a.iter().cloned().collect(), b.iter().cloned().collect());
            let mut d = vec![];
            for k in ma.keys().chain(mb.keys()).collect::<BTreeSet<_>>() {
                match (ma.get(k), mb.get(k)) {
                    (Some(_), None) => d.push(format!("{k} only in watch mode")),
                    (None, Some(_)) => d.push(format!("{k} only in the batch compile")),
                    (Some(x), Some(y)) if x != y => d.push(format!("{k} differs")),
                    _ => {}
                }
            }
            let n = d.len();
            d.truncate(4);
            format!("{n} artifact file(s) differ: {}", d.join(", "))
        }
        _ => format!("watch mode shows {} ; a batch compile shows {}", watch.short(), fresh.short()),
    }
}

fn message_class(msg: &str) -> &'static str {
    if msg.contains("convert file to utf8") || msg.contains("convert to string") {
        "not-utf8"
    } else if msg.contains("Schema not found") {
        "schema-not-found"
    } else if msg.contains("canonicalize") {
        "canonicalize"
    } else if msg.contains("read file") {
        "read-file"
    } else if msg.contains("traverse directory") {
        "traverse-directory"
    } else {
        "other"
    }
}

/// Compare what the session shows after a step with the fresh batch compile of the same disk.
///
/// Signatures name the root cause, not the way it shows: `<family>:<shape of the letter>:<how the
/// sources of the watch state now differ from what a fresh state reads>`. Before every step the
/// sources of the session equal those of a fresh state (run_history restarts the watcher
/// otherwise), so the source difference is the one this letter introduced.
fn judge(session: &Session, result: &StepResult, fresh: &Fresh, shape: &str, op: &Op) -> Judgement {
    let (cause, details) = source_diff(&session.sources(), fresh.sources.as_ref(), &session.tree, op);
    let diverge = |signature: String, text: String| {
        let evs = render_events(&session.last_events, &session.root);
        Judgement::Diverge(Failure {
            signature,
            what: format!("{text}; watcher events {evs} categorised as {:?}{}", session.last_changes, if details.is_empty() { String::new() } else { format!("; {}", details.join("; ")) }),
        })
    };
    match result {
        StepResult::Terminated(how, msg) => {
            let both_dead = matches!(fresh.obs, Obs::Unreadable(_)) || (how.starts_with("panic") && matches!(fresh.obs, Obs::Panic(_)));
            if both_dead {
                Judgement::AgreeTerminal
            } else {
                diverge(
                    format!("watcher-terminated:{how}:{}:{shape}", message_class(msg)),
                    format!("the watch loop ends ({how}: {}) although a batch compile of the same files gives: {}", msg.lines().next().unwrap_or(""), fresh.obs.short()),
                )
            }
        }
        StepResult::Recompiled(obs) => {
            if *obs == fresh.obs {
                return Judgement::Agree;
            }
            let signature = if matches!(fresh.obs, Obs::Unreadable(_)) {
                format!("watch-compiles-unloadable-project:{shape}")
            } else if cause == "sources-equal" {
                // same sources, different result: the incremental computation or the directory writer
                let class = match (obs, &fresh.obs) {
                    (Obs::Ok(_), Obs::Ok(_)) => "artifacts".to_string(),
                    (Obs::Diagnostics(_), Obs::Diagnostics(_)) => "diagnostics".to_string(),
                    (a, b) => format!("watch-{}-batch-{}", a.kind(), b.kind()),
                };
                format!("recompile-differs:{shape}:sources-equal:{class}")
            } else {
                format!("recompile-differs:{shape}:{cause}")
            };
            diverge(signature, format!("after the recompile {}", obs_difference(obs, &fresh.obs)))
        }
        StepResult::NoRecompile => match &session.shown() {
            None => Judgement::Agree,
            Some(o) if *o == fresh.obs => Judgement::Agree,
            Some(o) => diverge(format!("no-recompile:{shape}:{cause}"), format!("the change triggers no recompile, watch mode keeps showing its previous result, but {}", obs_difference(o, &fresh.obs))),
        },
    }
}

/// The judgement without the artifact directory: successes are taken to agree (their sources are
/// compared by the caller), everything else is compared as in `judge`.
fn judge_coarsely(session: &Session, result: &StepResult, fresh: &Fresh) -> Judgement {
    let differ = || Judgement::Diverge(Failure { signature: String::new(), what: String::new() });
    let same = |o: &Obs| matches!((o, &fresh.obs), (Obs::Ok(_), Obs::Ok(_))) || *o == fresh.obs;
    match result {
        StepResult::Terminated(how, _) => {
            if matches!(fresh.obs, Obs::Unreadable(_)) || (how.starts_with("panic") && matches!(fresh.obs, Obs::Panic(_))) { Judgement::AgreeTerminal } else { differ() }
        }
        StepResult::Recompiled(o) => if same(o) { Judgement::Agree } else { differ() },
        StepResult::NoRecompile => match &session.last_obs {
            None => Judgement::Agree,
            Some(o) => if same(o) { Judgement::Agree } else { differ() },
        },
    }
}

/// true when the session holds exactly the sources a fresh state would read
fn sources_in_sync(session: &Session, fresh: &Fresh) -> bool {
    fresh.sources.as_ref().is_some_and(|f| *f == session.sources())
}

#[derive(Debug, Clone)]
pub struct HistoryResult {
    /// None: the history extends a state in which the watcher (legitimately) no longer runs
    pub judgement: Option<Judgement>,
    pub digest: u64,
    pub nontrivial: bool,
    pub trace: Vec<String>,
}

/// Bring the watch directory back to the initial tree (only what a history changed is rewritten).
fn reset_dir(ctx: &mut Ctx) {
    let initial = Tree::initial();
    match ctx.on_disk.take() {
        Some(cur) if !ctx.check_disk => {
            // deepest first, so that folders are empty when they are removed
            for (p, n) in cur.0.iter().rev() {
                if initial.0.get(p) != Some(n) {
                    let full = ctx.watch_root.join(p);
                    let _ = if matches!(n, crate::tree::Node::Dir) { std::fs::remove_dir_all(&full) } else { std::fs::remove_file(&full) };
                }
            }
            for (p, n) in &initial.0 {
                if cur.0.get(p) != Some(n) {
                    let full = ctx.watch_root.join(p);
                    let r = match n {
                        crate::tree::Node::Dir => std::fs::create_dir_all(&full),
                        crate::tree::Node::File(c) => std::fs::write(&full, c.bytes()),
                    };
                    r.unwrap_or_else(|e| machinery_error(&format!("reset {p}: {e}")));
                }
            }
            let _ = std::fs::remove_file(ctx.watch_root.join(crate::tree::STRAY));
            let _ = std::fs::remove_file(ctx.watch_root.with_extension("tmp-save"));
        }
        _ => initial.write_to(&ctx.watch_root),
    }
}

/// Execute one history on a new real session; the judgement is that of the last step.
pub fn run_history(ctx: &mut Ctx, case: &Case, want_trace: bool) -> HistoryResult {
    let tree0 = Tree::initial();
    reset_dir(ctx);
    if !case.compiled_root {
        // nothing has been compiled yet: the artifact directory is empty
        let _ = std::fs::remove_dir_all(ctx.watch_root.join(crate::tree::ARTIFACT_DIR));
    }
    let mut session = Session::attach(&ctx.watch_root, &tree0, case.compiled_root).unwrap_or_else(|e| machinery_error(&format!("the initial tree cannot be loaded: {e}")));
    if ctx.check_disk {
        check_disk(&session.root, &session.tree);
    }
    let mut trace = vec![];
    let mut last: Option<(Judgement, u64, bool)> = None;
    if case.history.is_empty() {
        // the root itself: the first compile against a fresh compile
        let fresh = ctx.fresh.get(&tree0).clone();
        let shown = session.shown();
        let j = match &shown {
            Some(o) if *o != fresh.obs => Judgement::Diverge(Failure { signature: "root-differs".into(), what: obs_difference(o, &fresh.obs) }),
            _ => Judgement::Agree,
        };
        ctx.on_disk = Some(session.tree.clone());
        return HistoryResult { judgement: Some(j), digest: fnv(format!("{shown:?}").as_bytes()), nontrivial: false, trace };
    }
    let n = case.history.len();
    for (i, op) in case.history.iter().enumerate() {
        if !op.enabled(&session.tree) {
            machinery_error(&format!("history applies a disabled letter: {}", case.render()));
        }
        let fresh_before = if i + 1 == n { Some(ctx.fresh.get(&session.tree).obs.clone()) } else { None };
        let shape = op_shape(op, &session.tree, &session.watcher);
        // only the last step is judged in full here (every prefix is judged as a history of its
        // own); for the steps before it the directory is not read back: whether the watcher must
        // be restarted is decided from the kind of result and the sources (a replay judges all)
        let full = want_trace || i + 1 == n;
        let result = session.step(op, full);
        ctx.transitions += 1;
        if ctx.check_disk {
            check_disk(&session.root, &session.tree);
        }
        let fresh = ctx.fresh.get(&session.tree).clone();
        let in_sync = sources_in_sync(&session, &fresh);
        let j = if full { judge(&session, &result, &fresh, &shape, op) } else { judge_coarsely(&session, &result, &fresh) };
        if want_trace {
            trace.push(format!(
                "step {}: {} [{shape}]\n    watcher events: {} -> {:?}\n    watch mode: {}\n    fresh batch compile: {}\n    verdict: {}",
                i + 1,
                op.render(),
                render_events(&session.last_events, &session.root),
                session.last_changes,
                match &result {
                    StepResult::NoRecompile => format!("no recompile (still showing: {})", session.shown().map(|o| o.short()).unwrap_or("nothing".into())),
                    StepResult::Recompiled(o) => format!("recompiled: {}", o.short()),
                    StepResult::Terminated(how, m) => format!("LOOP ENDS ({how}): {}", m.lines().next().unwrap_or("")),
                },
                fresh.obs.short(),
                match &j {
                    Judgement::Agree if in_sync => "agree".to_string(),
                    Judgement::Agree => "agree in what is shown (the sources held by the watch state differ from the disk)".to_string(),
                    Judgement::AgreeTerminal => "both cannot go on".to_string(),
                    Judgement::Diverge(f) => format!("DIVERGE {} :: {}", f.signature, f.what),
                }
            ));
        }
        if i + 1 == n {
            let digest = fnv(format!("{result:?}").as_bytes());
            let nontrivial = fresh_before.is_some_and(|b| b != fresh.obs);
            if matches!(j, Judgement::Agree) && !in_sync {
                ctx.latent += 1;
            }
            last = Some((j, digest, nontrivial));
            break;
        }
        let restart = match j {
            Judgement::Agree => !in_sync,
            Judgement::AgreeTerminal => {
                ctx.on_disk = Some(session.tree.clone());
                return HistoryResult { judgement: None, digest: 0, nontrivial: false, trace };
            }
            Judgement::Diverge(_) => true,
        };
        if restart {
            // the user restarts the watch command on the disk as it is: later steps are compared
            // from a state that holds what a fresh state holds
            ctx.resyncs += 1;
            let tree = session.tree.clone();
            drop(session);
            session = match Session::attach(&ctx.watch_root, &tree, true) {
                Ok(s) => s,
                Err(_) => {
                    ctx.on_disk = Some(tree);
                    return HistoryResult { judgement: None, digest: 0, nontrivial: false, trace };
                }
            };
            if want_trace {
                trace.push("    (watch command restarted on the current disk)".to_string());
            }
        }
    }
    ctx.on_disk = Some(session.tree.clone());
    let (j, digest, nontrivial) = last.unwrap();
    HistoryResult { judgement: Some(j), digest, nontrivial, trace }
}

// ---------------------------------------------------------------------------------------------
// enumeration
// ---------------------------------------------------------------------------------------------

/// Histories h with prefix <= h, |h| <= max_depth, in depth-first order; letters must be enabled
/// on the abstract tree, and a garbage collection never directly follows another.
fn extend(alpha: &[Op], h: &mut Vec<Op>, t: &Tree, max_depth: usize, f: &mut dyn FnMut(&[Op])) {
    f(h);
    if h.len() >= max_depth {
        return;
    }
    for op in alpha {
        if !op.enabled(t) || (matches!(op, Op::Gc) && matches!(h.last(), Some(Op::Gc))) {
            continue;
        }
        let mut t2 = t.clone();
        op.apply_abstract(&mut t2);
        h.push(op.clone());
        extend(alpha, h, &t2, max_depth, f);
        h.pop();
    }
}

#[derive(Debug, Clone, Serialize, Deserialize)]
struct Shard {
    compiled_root: bool,
    prefix: Vec<Op>,
    /// only histories of at least this length are executed (shorter ones belong to another plan)
    min_len: usize,
    max_depth: usize,
    level: usize,
    shared: Option<PathBuf>,
}

/// One exhaustive sweep: every history h over alphabet `level` with min_len <= |h| <= depth, from
/// the given roots.
#[derive(Debug, Clone, Serialize)]
struct Plan {
    level: usize,
    min_len: usize,
    depth: usize,
    roots: Vec<bool>,
}

fn shards(plan: &Plan, split: usize, shared: &Path) -> Vec<Shard> {
    let alpha = alphabet(plan.level);
    let split = split.min(plan.depth);
    let mut out = vec![];
    for &compiled_root in &plan.roots {
        let mut prefixes: Vec<Vec<Op>> = vec![];
        extend(&alpha, &mut vec![], &Tree::initial(), split, &mut |h| prefixes.push(h.to_vec()));
        for p in prefixes {
            let max_depth = if p.len() < split { p.len() } else { plan.depth };
            if max_depth < plan.min_len {
                continue;
            }
            out.push(Shard { compiled_root, prefix: p, min_len: plan.min_len, max_depth, level: plan.level, shared: Some(shared.to_path_buf()) });
        }
    }
    out
}

#[derive(Debug, Default, Serialize, Deserialize)]
struct ShardResult {
    histories: u64,
    dead: u64,
    judged: u64,
    agree: u64,
    agree_terminal: u64,
    diverging: u64,
    nontrivial: u64,
    transitions: u64,
    resyncs: u64,
    latent: u64,
    fresh_computed: u64,
    fresh_loaded: u64,
    digests: BTreeSet<u64>,
    /// per signature: (count, shortest case, what)
    failures: BTreeMap<String, (u64, Case, String)>,
    samples: Vec<String>,
}

fn worker_shard(shard: &Shard) -> ShardResult {
    let alpha = alphabet(shard.level);
    let mut ctx = Ctx::new("watch-c20", shard.shared.clone());
    // the disk is compared with the abstract tree after every step only on request and in replays
    ctx.check_disk = std::env::var("WATCH_MC_CHECK_DISK").is_ok();
    let mut res = ShardResult::default();
    let mut t = Tree::initial();
    for op in &shard.prefix {
        op.apply_abstract(&mut t);
    }
    let mut all: Vec<Vec<Op>> = vec![];
    extend(&alpha, &mut shard.prefix.clone(), &t, shard.max_depth, &mut |h| {
        if h.len() >= shard.min_len {
            all.push(h.to_vec())
        }
    });
    let mut dead_prefixes: Vec<Vec<Op>> = vec![];
    for h in all {
        res.histories += 1;
        if dead_prefixes.iter().any(|d| h.len() > d.len() && h.starts_with(d)) {
            res.dead += 1;
            continue;
        }
        let case = Case { compiled_root: shard.compiled_root, history: h };
        eprintln!("CUR {}", serde_json::to_string(&case).unwrap());
        let r = run_history(&mut ctx, &case, false);
        match r.judgement {
            None => res.dead += 1,
            Some(j) => {
                res.judged += 1;
                res.digests.insert(r.digest);
                if r.nontrivial {
                    res.nontrivial += 1;
                }
                match j {
                    Judgement::Agree => res.agree += 1,
                    Judgement::AgreeTerminal => {
                        res.agree_terminal += 1;
                        dead_prefixes.push(case.history.clone());
                    }
                    Judgement::Diverge(f) => {
                        res.diverging += 1;
                        let e = res.failures.entry(f.signature.clone()).or_insert((0, case.clone(), f.what.clone()));
                        e.0 += 1;
                        if case.history.len() < e.1.history.len() {
                            e.1 = case.clone();
                            e.2 = f.what;
                        }
                    }
                }
                if res.samples.len() < 2 && case.history.len() == shard.max_depth {
                    res.samples.push(case.render());
                }
            }
        }
    }
    res.transitions = ctx.transitions;
    res.resyncs = ctx.resyncs;
    res.latent = ctx.latent;
    res.fresh_computed = ctx.fresh.computed;
    res.fresh_loaded = ctx.fresh.loaded;
    res
}

/// 1-minimal sub-history with the same signature at its last step (single removals).
fn reduce(ctx: &mut Ctx, case: &Case, signature: &str) -> (Case, String) {
    let fails = |ctx: &mut Ctx, c: &Case| -> Option<String> {
        let mut t = Tree::initial();
        for op in &c.history {
            if !op.enabled(&t) {
                return None;
            }
            op.apply_abstract(&mut t);
        }
        match run_history(ctx, c, false).judgement {
            Some(Judgement::Diverge(f)) if f.signature == signature => Some(f.what),
            _ => None,
        }
    };
    let mut cur = case.clone();
    let mut what = fails(ctx, &cur).unwrap_or_default();
    'again: loop {
        if !cur.compiled_root {
            // prefer the realistic root when it fails the same way
            let cand = Case { compiled_root: true, history: cur.history.clone() };
            if let Some(w) = fails(ctx, &cand) {
                cur = cand;
                what = w;
                continue 'again;
            }
        }
        for i in 0..cur.history.len().saturating_sub(1) {
            let mut cand = cur.clone();
            cand.history.remove(i);
            if let Some(w) = fails(ctx, &cand) {
                cur = cand;
                what = w;
                continue 'again;
            }
        }
        return (cur, what);
    }
}

// ---------------------------------------------------------------------------------------------
// replay
// ---------------------------------------------------------------------------------------------

fn replay_worker(path: &Path) -> Value {
    let v = read_replay(path);
    let case: Case = serde_json::from_value(v["case"].clone()).unwrap_or_else(|e| machinery_error(&format!("replay case: {e}")));
    let mut ctx = Ctx::new("watch-c20-replay", None);
    let r = run_history(&mut ctx, &case, true);
    let mut extra = vec![];
    if let Some(Judgement::Diverge(_)) = &r.judgement {
        // show the first differing artifact in full
        let mut tree = Tree::initial();
        for op in &case.history {
            op.apply_abstract(&mut tree);
        }
        let fresh_root = ctx.fresh.fresh_root.clone();
        crate::session::fresh_compile(&fresh_root, &tree);
        let w = read_artifacts(&ctx.watch_root, true);
        let f = read_artifacts(&fresh_root, true);
        let (mw, mf): (BTreeMap<_, _>, BTreeMap<_, _>) = (w.iter().map(|x| (&x.0, &x.2)).collect(), f.iter().map(|x| (&x.0, &x.2)).collect());
        // (only meaningful when both compiles succeeded and wrote their artifacts)
        for k in mw.keys().chain(mf.keys()).collect::<BTreeSet<_>>() {
            if !mw.is_empty() && !mf.is_empty() && mw.get(k) != mf.get(k) {
                let show = |o: Option<&&Option<String>>| o.and_then(|c| c.as_ref()).map(|c| c.chars().take(600).collect::<String>()).unwrap_or("<absent>".into());
                extra.push(format!("artifact directory, first difference: {k}\n--- watch mode directory ---\n{}\n--- fresh batch compile ---\n{}", show(mw.get(k)), show(mf.get(k))));
                break;
            }
        }
    }
    json!({
        "case": case.render(),
        "trace": r.trace,
        "extra": extra,
        "failure": match &r.judgement { Some(Judgement::Diverge(f)) => json!({"signature": f.signature, "what": f.what}), _ => Value::Null },
        "dead": r.judgement.is_none(),
    })
}

fn crash_text(o: &WorkerOutcome) -> String {
    format!("exit {:?} signal {:?}{}; stderr: {}", o.exit, o.signal, if o.timed_out { " (timed out)" } else { "" }, o.stderr_tail.lines().filter(|l| !l.starts_with("CUR ")).take(6).collect::<Vec<_>>().join(" / "))
}

fn replay(args: &Args, path: &Path) -> i32 {
    let shard = json!({"replay": path}).to_string();
    let outs = run_pool(&args.property, args.tier, vec![shard.clone(), shard], 2, &[], Duration::from_secs(300));
    if outs.iter().any(|o| o.crashed()) {
        let a = outs.iter().find(|o| o.crashed()).unwrap();
        if outs.iter().all(|o| o.crashed()) {
            println!("the replay kills the process both times: {}", crash_text(a));
            println!("VIOLATION property=C20 replay={}", path.display());
            return 1;
        }
        machinery_error(&format!("replay is not deterministic: one run crashed ({})", crash_text(a)));
    }
    let (a, b) = (outs[0].result.clone().unwrap(), outs[1].result.clone().unwrap());
    if a != b {
        machinery_error("replay is not deterministic: the two runs observe different things");
    }
    println!("{}", a["case"].as_str().unwrap_or(""));
    // the same history under the real debounced watcher: the events the steps were fed with are
    // the events the real watcher delivers
    let case: Case = serde_json::from_value(read_replay(path)["case"].clone()).unwrap_or_else(|e| machinery_error(&format!("replay case: {e}")));
    let scratch = Scratch::new("watch-c20-replay-conf");
    let root = scratch.path().join("proj");
    let mut rep = crate::conform::run_scenario(&root, &case.history, 1);
    if rep.machinery.is_some() || !rep.mismatches().is_empty() {
        rep = crate::conform::run_scenario(&root, &case.history, 4);
    }
    if let Some(m) = &rep.machinery {
        machinery_error(&format!("the real watcher cannot be used: {m}"));
    }
    for s in &rep.steps {
        println!("real watcher, step {}: {} delivers {}{}", s.index + 1, s.op.render(), render_events(&s.real, &root), if s.real == s.model { " (= event model)".to_string() } else if s.burst_delivered() { " (this time the watcher thread won the race and the file's event was delivered too; the model, and this replay, take it as lost, which is what the watcher does on an idle machine)".to_string() } else { format!(" BUT THE MODEL SAYS {}", render_events(&s.model, &root)) });
    }
    if !rep.mismatches().is_empty() {
        machinery_error("the event model disagrees with the real watcher on this history");
    }
    for l in a["trace"].as_array().into_iter().flatten().chain(a["extra"].as_array().into_iter().flatten()) {
        println!("{}", l.as_str().unwrap_or(""));
    }
    if a["failure"].is_null() {
        println!("REPLAY: the last step agrees with a fresh batch compile{}", if a["dead"].as_bool() == Some(true) { " (the history extends a state in which neither can go on)" } else { "" });
        return 0;
    }
    println!("DETAIL property=C20 signature={} :: {}", a["failure"]["signature"].as_str().unwrap_or(""), a["failure"]["what"].as_str().unwrap_or(""));
    println!("VIOLATION property=C20 replay={}", path.display());
    1
}

// ---------------------------------------------------------------------------------------------
// main
// ---------------------------------------------------------------------------------------------

pub fn main(args: &Args) -> i32 {
    quiet_panics();
    if let Some(w) = &args.worker {
        let v: Value = serde_json::from_str(w).unwrap_or_else(|e| machinery_error(&format!("worker shard: {e}")));
        if let Some(p) = v.get("replay") {
            worker_emit(&replay_worker(Path::new(p.as_str().unwrap())));
        } else if let Some(c) = v.get("reduce") {
            let case: Case = serde_json::from_value(c.clone()).unwrap();
            let mut ctx = Ctx::new("watch-c20-reduce", None);
            let (min, what) = reduce(&mut ctx, &case, v["signature"].as_str().unwrap());
            worker_emit(&json!({"case": min, "what": what}));
        } else {
            let shard: Shard = serde_json::from_value(v).unwrap_or_else(|e| machinery_error(&format!("worker shard: {e}")));
            worker_emit(&serde_json::to_value(worker_shard(&shard)).unwrap());
        }
        return 0;
    }
    if let Some(path) = &args.replay {
        return replay(args, path);
    }

    let mut ev = Evidence::new(args, "model_checking");
    // quick: the quick alphabet to depth 3 from both roots. thorough: the full alphabet to depth 3
    // from both roots, plus every history of length 4 over the quick alphabet from the realistic
    // root (after the first compile).
    let env = |k: &str| std::env::var(k).ok().and_then(|s| s.parse::<usize>().ok());
    let plans: Vec<Plan> = match (env("C20_LEVEL"), env("C20_DEPTH")) {
        (None, None) => match args.tier {
            Tier::Quick => vec![Plan { level: 0, min_len: 0, depth: 3, roots: vec![true, false] }],
            Tier::Thorough => vec![Plan { level: 1, min_len: 0, depth: 3, roots: vec![true, false] }, Plan { level: 0, min_len: 4, depth: 4, roots: vec![true] }],
        },
        (l, d) => vec![Plan { level: l.unwrap_or(0), min_len: 0, depth: d.unwrap_or(3), roots: vec![true, false] }],
    };
    let level = plans.iter().map(|p| p.level).max().unwrap();
    let depth = plans.iter().map(|p| p.depth).max().unwrap();
    let alpha = alphabet(level);

    // 1. bind the event model to the real watcher
    let t0 = std::time::Instant::now();
    let conf = crate::conform::run(&alpha, 2, args.tier == Tier::Thorough, args.jobs);
    let conf_s = t0.elapsed().as_secs_f64();
    if let Some(m) = &conf.machinery {
        ev.set("conformance_error", m.clone());
        ev.write();
        machinery_error(&format!("conformance run: the real notify watcher cannot be used here: {m}"));
    }
    if !conf.mismatches.is_empty() {
        for m in conf.mismatches.iter().take(10) {
            println!("EVENT-MODEL-MISMATCH {m}");
        }
        ev.set("conformance_mismatches", json!(conf.mismatches));
        ev.write();
        machinery_error(&format!("the event model disagrees with the real debounced watcher on {} step(s); the exploration would not be about the real watcher", conf.mismatches.len()));
    }
    if conf.cases_covered < conf.cases_total {
        machinery_error(&format!("conformance covered only {} of {} model cases", conf.cases_covered, conf.cases_total));
    }

    // 2. explore
    let shared = Scratch::new("watch-c20-run");
    std::fs::create_dir_all(shared.path().join("cache")).unwrap_or_else(|e| machinery_error(&format!("scratch: {e}")));
    let mut sh: Vec<Shard> = plans.iter().flat_map(|p| shards(p, if p.depth >= 4 { 2 } else { 1 }, shared.path())).collect();
    if args.seed != 0 {
        let n = sh.len();
        sh.rotate_left((args.seed.unsigned_abs() as usize) % n.max(1));
    }
    // big shards first
    sh.sort_by_key(|s| std::cmp::Reverse(s.max_depth - s.prefix.len()));
    let shard_strings: Vec<String> = sh.iter().map(|s| serde_json::to_string(s).unwrap()).collect();
    let timeout = Duration::from_secs(args.tier.pick(240, 7200));
    let outs = run_pool(&args.property, args.tier, shard_strings, args.jobs, &[], timeout);

    let mut total = ShardResult::default();
    let mut verdict = Verdict::new("C20");
    let mut capped = false;
    let mut fatal: Option<String> = None;
    for (o, s) in outs.iter().zip(&sh) {
        match &o.result {
            Some(v) => {
                let r: ShardResult = serde_json::from_value(v.clone()).unwrap_or_else(|e| machinery_error(&format!("worker result: {e}")));
                total.histories += r.histories;
                total.dead += r.dead;
                total.judged += r.judged;
                total.agree += r.agree;
                total.agree_terminal += r.agree_terminal;
                total.diverging += r.diverging;
                total.nontrivial += r.nontrivial;
                total.transitions += r.transitions;
                total.resyncs += r.resyncs;
                total.latent += r.latent;
                total.fresh_computed += r.fresh_computed;
                total.fresh_loaded += r.fresh_loaded;
                total.digests.extend(r.digests);
                total.samples.extend(r.samples.into_iter().take(1));
                for (sig, (n, case, what)) in r.failures {
                    let e = total.failures.entry(sig).or_insert((0, case.clone(), what.clone()));
                    e.0 += n;
                    if (case.history.len(), !case.compiled_root, &case.history) < (e.1.history.len(), !e.1.compiled_root, &e.1.history) {
                        e.1 = case;
                        e.2 = what;
                    }
                }
            }
            None => {
                capped = true;
                if o.timed_out {
                    fatal.get_or_insert(format!("worker timed out on shard [{}]", render_history(&s.prefix)));
                    continue;
                }
                // the worker process died: the history it was executing kills the compiler
                let cur = o.stderr_tail.lines().rev().find(|l| l.starts_with("CUR ")).and_then(|l| serde_json::from_str::<Case>(&l[4..]).ok());
                match cur {
                    Some(case) => verdict.add(Violation { signature: format!("process-dies:{}", o.signal.map(|s| format!("signal-{s}")).unwrap_or(format!("exit-{:?}", o.exit))), what: format!("{}: the process executing the watch loop dies: {}", case.render(), crash_text(o)), case: serde_json::to_value(&case).unwrap() }),
                    None => {
                        fatal.get_or_insert(format!("a worker died without naming its history: {}", crash_text(o)));
                    }
                }
            }
        }
    }

    drop(shared);
    if let Some(m) = fatal {
        machinery_error(&m);
    }

    // 3. one minimal replay per signature
    let reduce_shards: Vec<String> = total.failures.iter().map(|(sig, (_, case, _))| json!({"reduce": case, "signature": sig}).to_string()).collect();
    let red = run_pool(&args.property, args.tier, reduce_shards, args.jobs, &[], Duration::from_secs(600));
    for ((sig, (n, case, what)), o) in total.failures.iter().zip(&red) {
        let (min, what) = match &o.result {
            Some(v) => (serde_json::from_value::<Case>(v["case"].clone()).unwrap_or(case.clone()), v["what"].as_str().filter(|w| !w.is_empty()).unwrap_or(what).to_string()),
            None => (case.clone(), what.clone()),
        };
        verdict.add(Violation { signature: sig.clone(), what: format!("{} :: {} ({} histories end this way)", min.render(), what, n), case: serde_json::to_value(&min).unwrap() });
    }
    verdict.violations.sort_by_key(|v| (v.case["history"].as_array().map(|a| a.len()).unwrap_or(0), v.signature.clone()));
    let (code, n_new, known) = verdict.conclude("watch_mc/c20");
    ev.violations = n_new as i64;

    let mut samples: Vec<Value> = pick_samples(&total.samples).into_iter().map(|s| json!(s)).collect();
    for v in &verdict.violations {
        if known.contains(&v.signature) {
            samples.push(json!({"known_finding": v.signature, "case": v.case, "what": v.what}));
        }
    }
    samples.extend(pick_samples(&conf.samples).into_iter().map(|s| json!({"conformance_step": s})));
    ev.set("states", total.histories)
        .set("transitions", total.transitions)
        .set("traces_validated_against_impl", conf.steps_validated)
        .set("evaluations", total.judged)
        .set("distinct_nontrivial", total.nontrivial)
        .set("rule", "states = distinct histories (a state is the history that reaches it; every prefix is a history of its own), each executed on its own real CompilerState over a real directory; transitions = letters applied through the event model, the real categorisation, update_sources / CompilerState::new, compile and garbage collection; evaluations = histories whose last step was compared with a fresh batch compile; non-trivial = those whose last letter changed what a fresh batch compile of the disk produces; traces_validated_against_impl = steps of the conformance scenarios on which the real notify-debouncer-full watcher delivered exactly the model's events")
        .set("depth", depth as u64)
        .set("plans", json!(plans.iter().map(|p| json!({"alphabet_letters": alphabet(p.level).len(), "history_lengths": format!("{}..={}", p.min_len, p.depth), "roots": p.roots.iter().map(|r| if *r { "after the first compile" } else { "before the first compile" }).collect::<Vec<_>>()})).collect::<Vec<_>>()))
        .set("roots", json!(["state after CompilerState::new (before the first compile)", "state after the first compile"]))
        .set("alphabet_size", alpha.len() as u64)
        .set("alphabet", json!(alpha.iter().map(|o| o.render()).collect::<Vec<_>>()))
        .set("histories_extending_a_stopped_watcher", total.dead)
        .set("histories_agreeing", total.agree)
        .set("histories_where_both_stop", total.agree_terminal)
        .set("histories_diverging", total.diverging)
        .set("diverging_signatures", json!(total.failures.iter().map(|(s, (n, _, _))| json!({"signature": s, "histories": n})).collect::<Vec<_>>()))
        .set("watcher_restarts_after_divergence", total.resyncs)
        .set("histories_agreeing_with_sources_out_of_sync", total.latent)
        .set("fresh_compiles", total.fresh_computed)
        .set("outcomes", total.digests.len() as u64)
        .set("conformance", json!({"scenarios": conf.scenarios, "steps_validated": conf.steps_validated, "model_cases_covered": conf.cases_covered, "model_cases_reachable_in_2_steps": conf.cases_total, "steps_delivered_in_more_than_one_batch": conf.split_batches, "mkdir_write_file_event_lost_as_modelled": conf.burst_lost, "mkdir_write_file_event_delivered_race_won_by_watcher": conf.burst_delivered, "wall_s": conf_s}))
        .set("samples", json!(samples))
        .set("known_findings_reobserved", json!(known))
        .set("exhaustive", !capped);
    ev.assume("the event model is for the Linux inotify backend of notify 7 + notify-debouncer-full 0.4 (what this machine runs); FSEvents / ReadDirectoryChanges deliver other events (e.g. Modify(Name(Any))) and are not explored");
    ev.assume("every letter happens in its own debounce window (the tree is quiet for more than 100 ms between letters); only mkdir+write is a burst. Merging of several letters inside one window is not explored");
    ev.assume("the tokio channel, the debouncer's timing and print_result are not executed; a message of the watcher is the model's event list for one letter");
    ev.assume("the reference is the same compiler run fresh (differential oracle): create_config + CompilerState::new + compile in an empty directory holding the same files");
    ev.assume("the file the harness writes inside the artifact directory is left out of the directory comparison (a fresh compile deletes it, watch mode never touches it: C18's subject)");
    ev.assume("after a step that diverges, or after which the sources held by the watch state differ from the disk although the results agree, the watch command is restarted on the current disk and the history continues from there: every step is judged from a state holding what a fresh state holds, so a signature names the letter that introduced the difference");
    ev.write();
    if total.judged < 1000 || total.digests.len() < 8 || total.nontrivial < 200 {
        machinery_error(&format!("vacuous: {} histories judged, {} distinct observations, {} non-trivial", total.judged, total.digests.len(), total.nontrivial));
    }
    println!(
        "watch_mc C20: {}: {} histories ({} judged, {} extend a stopped watcher), {} transitions, {} diverge under {} signature(s), {} distinct observations; conformance: {} steps on the real watcher in {:.1}s; {} new violation signature(s), known {:?}",
        plans.iter().map(|p| format!("{} letters x lengths {}..={} x {} root(s)", alphabet(p.level).len(), p.min_len, p.depth, p.roots.len())).collect::<Vec<_>>().join(" + "),
        total.histories,
        total.judged,
        total.dead,
        total.transitions,
        total.diverging,
        total.failures.len(),
        total.digests.len(),
        conf.steps_validated,
        conf_s,
        n_new,
        known
    );
    code
}

//! One watch-mode session on the real code, and the fresh-batch-compile oracle.
//!
//! `Session::step` does for one letter exactly what `handle_watch_command` does for one message
//! of the watcher: the model's debounced events go through the real
//! `verif_categorize_and_filter_events`; no relevant event -> nothing happens; a config change ->
//! `create_config` + `CompilerState::new` (+ a new watcher); otherwise `update_sources` (an `Err`
//! ends the real loop); then `compile` and `run_garbage_collection`.

use crate::events::{ArtifactDirState, Ev, WatcherModel, model_events};
use crate::tree::{ARTIFACT_DIR, CONFIG, Op, STRAY, Tree};
use common_lang_types::CurrentWorkingDirectory;
use graphql_network_protocol::GraphQLAndJavascriptProfile;
use intern::string_key::Intern;
use isograph_compiler::watch::{has_config_changes, verif_categorize_and_filter_events};
use isograph_compiler::{CompilerState, batch_compile::compile, update_sources};
use isograph_config::{CompilerConfig, create_config};
use mc_core::{machinery_error, panic_message};
use pico::Database;
use serde::{Deserialize, Serialize};
use std::collections::BTreeMap;
use std::panic::{AssertUnwindSafe, catch_unwind};
use std::path::{Path, PathBuf};
use std::time::{Duration, Instant};

type State = CompilerState<GraphQLAndJavascriptProfile>;

pub fn fnv(b: &[u8]) -> u64 {
    b.iter().fold(0xcbf29ce484222325u64, |h, b| (h ^ *b as u64).wrapping_mul(0x100000001b3))
}

/// What a compile produced, as a user sees it.
#[derive(Debug, Clone, PartialEq, Eq, PartialOrd, Ord, Hash, Serialize, Deserialize)]
pub enum Obs {
    /// (path below the artifact directory, hash of the bytes), sorted; the file the harness itself
    /// wrote into the artifact directory is left out
    Ok(Vec<(String, u64)>),
    /// rendered diagnostics, sorted, absolute scratch paths replaced by $ROOT
    Diagnostics(Vec<String>),
    /// the project cannot even be loaded (create_config panics, or CompilerState::new fails)
    Unreadable(String),
    Panic(String),
}

impl Obs {
    pub fn kind(&self) -> &'static str {
        match self {
            Obs::Ok(_) => "ok",
            Obs::Diagnostics(_) => "diagnostics",
            Obs::Unreadable(_) => "unreadable",
            Obs::Panic(_) => "panic",
        }
    }
    pub fn short(&self) -> String {
        match self {
            Obs::Ok(a) => format!("{} artifacts", a.len()),
            Obs::Diagnostics(d) => format!("diagnostics {:?}", d.iter().map(|m| m.lines().next().unwrap_or("").to_string()).collect::<Vec<_>>()),
            Obs::Unreadable(m) => format!("project unreadable: {}", m.lines().next().unwrap_or("")),
            Obs::Panic(m) => format!("panic: {}", m.lines().next().unwrap_or("")),
        }
    }
}

/// The sources a compiler state holds: path -> hash of the text.
#[derive(Debug, Clone, PartialEq, Eq, Default, Serialize, Deserialize)]
pub struct Sources {
    pub iso: BTreeMap<String, u64>,
    pub schema: Option<u64>,
    pub extensions: BTreeMap<String, u64>,
}

fn sources_of(state: &State) -> Sources {
    let db = &state.db;
    let mut s = Sources::default();
    for (path, id) in db.get_iso_literal_map().untracked().0.iter() {
        let h = catch_unwind(AssertUnwindSafe(|| fnv(db.get(*id).content.as_bytes()))).unwrap_or(0);
        s.iso.insert(path.to_string(), h);
    }
    let view = db.get_standard_sources();
    let std_sources = view.untracked();
    s.schema = catch_unwind(AssertUnwindSafe(|| fnv(db.get(std_sources.schema_source_id).content.as_bytes()))).ok();
    for (path, id) in std_sources.schema_extension_sources.iter() {
        let h = catch_unwind(AssertUnwindSafe(|| fnv(db.get(*id).content.as_bytes()))).unwrap_or(0);
        s.extensions.insert(path.to_string(), h);
    }
    s
}

pub fn read_artifacts(root: &Path, with_content: bool) -> Vec<(String, u64, Option<String>)> {
    fn walk(base: &Path, d: &Path, with_content: bool, out: &mut Vec<(String, u64, Option<String>)>) {
        let Ok(rd) = std::fs::read_dir(d) else { return };
        for e in rd.flatten() {
            let p = e.path();
            if p.is_dir() {
                walk(base, &p, with_content, out);
            } else {
                let bytes = std::fs::read(&p).unwrap_or_default();
                out.push((p.strip_prefix(base).unwrap().to_string_lossy().to_string(), fnv(&bytes), with_content.then(|| String::from_utf8_lossy(&bytes).to_string())));
            }
        }
    }
    let base = root.join(ARTIFACT_DIR);
    let stray = Path::new(STRAY).strip_prefix(ARTIFACT_DIR).unwrap().to_string_lossy().to_string();
    let mut out = vec![];
    walk(&base, &base, with_content, &mut out);
    out.retain(|(p, _, _)| *p != stray);
    out.sort();
    out
}

fn normalise(msg: &str, root: &Path) -> String {
    msg.replace(root.to_str().unwrap(), "$ROOT")
}

fn cwd_of(root: &Path) -> CurrentWorkingDirectory {
    root.to_str().unwrap().intern().into()
}

/// When two files declare the same client field, which of them is blamed, and which follow-up
/// diagnostics appear, depends on the iteration order of a `HashMap` with a per-instance random
/// seed (two fresh compiles of the same files differ). Such a result is reduced to the messages
/// "Multiple definitions of X" (without locations); every other result is compared in full
/// (message, path, line, column, excerpt).
fn stable_diagnostics(mut v: Vec<String>) -> Vec<String> {
    if v.iter().any(|d| d.starts_with("Multiple definitions of")) {
        v.retain(|d| d.starts_with("Multiple definitions of"));
        for d in v.iter_mut() {
            *d = d.lines().next().unwrap_or("").to_string() + " <location and follow-up diagnostics not compared>";
        }
        v.dedup();
    }
    v.sort();
    v.dedup();
    v
}

/// `compile` + what the user sees of it.
///
/// `read_directory` false: a successful compile is recorded as `Obs::Ok(vec![])` and the artifact
/// directory is read later, when (and if) the result is judged (`Session::shown`): the directory
/// does not change between two compiles of a session except for the harness's own stray file.
fn compile_obs(state: &mut State, root: &Path, read_directory: bool) -> Obs {
    match catch_unwind(AssertUnwindSafe(|| compile::<GraphQLAndJavascriptProfile>(state))) {
        Err(p) => Obs::Panic(normalise(&panic_message(&*p), root)),
        Ok(Ok(_)) if !read_directory => Obs::Ok(vec![]),
        Ok(Ok(_)) => artifacts_obs(root),
        Ok(Err(diags)) => {
            let v: Vec<String> = diags.iter().map(|d| normalise(&d.printable(state.db.print_location_fn(false)).to_string(), root)).collect();
            Obs::Diagnostics(stable_diagnostics(v))
        }
    }
}

fn artifacts_obs(root: &Path) -> Obs {
    Obs::Ok(read_artifacts(root, false).into_iter().map(|(p, h, _)| (p, h)).collect())
}

/// The project on disk loaded as the CLI's batch mode does; Err = why it cannot be loaded.
fn load(root: &Path) -> Result<(CompilerConfig, State), String> {
    let cwd = cwd_of(root);
    let config = catch_unwind(AssertUnwindSafe(|| create_config(&root.join(CONFIG), cwd))).map_err(|p| format!("create_config panicked: {}", normalise(&panic_message(&*p), root)))?;
    match catch_unwind(AssertUnwindSafe(|| CompilerState::new(config.clone(), cwd))) {
        Err(p) => Err(format!("CompilerState::new panicked: {}", normalise(&panic_message(&*p), root))),
        Ok(Err(e)) => Err(format!("CompilerState::new failed: {}", normalise(&e.to_string(), root))),
        Ok(Ok(state)) => Ok((config, state)),
    }
}

// ---------------------------------------------------------------------------------------------
// oracle: fresh batch compile
// ---------------------------------------------------------------------------------------------

#[derive(Debug, Clone, PartialEq, Eq, Serialize, Deserialize)]
pub struct Fresh {
    pub obs: Obs,
    pub sources: Option<Sources>,
}

/// Fresh `CompilerState::new` + `compile` of the tree, in an empty directory of its own.
pub fn fresh_compile(fresh_root: &Path, tree: &Tree) -> Fresh {
    tree.write_to(fresh_root);
    match load(fresh_root) {
        Err(why) => Fresh { obs: Obs::Unreadable(why), sources: None },
        Ok((_, mut state)) => {
            let obs = compile_obs(&mut state, fresh_root, true);
            Fresh { obs, sources: Some(sources_of(&state)) }
        }
    }
}

/// Fresh results by tree: an in-process map over a directory of files shared by all workers of
/// one run (a tree is compiled once per run, not once per worker).
pub struct FreshCache {
    pub fresh_root: PathBuf,
    shared_dir: Option<PathBuf>,
    map: BTreeMap<Tree, Fresh>,
    pub computed: u64,
    pub loaded: u64,
}

impl FreshCache {
    pub fn new(fresh_root: PathBuf, shared_dir: Option<PathBuf>) -> Self {
        FreshCache { fresh_root, shared_dir, map: BTreeMap::new(), computed: 0, loaded: 0 }
    }
    pub fn get(&mut self, tree: &Tree) -> &Fresh {
        if !self.map.contains_key(tree) {
            let file = self.shared_dir.as_ref().map(|d| d.join(format!("{:016x}.json", fnv(tree.render().as_bytes()))));
            let from_file = file.as_ref().and_then(|f| std::fs::read(f).ok()).and_then(|b| serde_json::from_slice::<(String, Fresh)>(&b).ok()).filter(|(key, _)| *key == tree.render()).map(|(_, f)| f);
            let fresh = match from_file {
                Some(f) => {
                    self.loaded += 1;
                    f
                }
                None => {
                    self.computed += 1;
                    let f = fresh_compile(&self.fresh_root, tree);
                    if let Some(file) = &file {
                        let tmp = file.with_extension(format!("tmp{}", std::process::id()));
                        if std::fs::write(&tmp, serde_json::to_vec(&(tree.render(), &f)).unwrap()).is_ok() {
                            let _ = std::fs::rename(&tmp, file);
                        }
                    }
                    f
                }
            };
            self.map.insert(tree.clone(), fresh);
        }
        &self.map[tree]
    }
}

// ---------------------------------------------------------------------------------------------
// the watch session
// ---------------------------------------------------------------------------------------------

#[derive(Debug, Clone, PartialEq, Eq, Serialize, Deserialize)]
pub enum StepResult {
    /// the watcher delivered nothing the compiler reacts to: no recompile
    NoRecompile,
    Recompiled(Obs),
    /// the real loop ends here: (how, message)
    Terminated(String, String),
}

pub struct Session {
    pub root: PathBuf,
    cwd: CurrentWorkingDirectory,
    config: CompilerConfig,
    pub state: State,
    pub watcher: WatcherModel,
    pub tree: Tree,
    /// what the last (re)compile of this session showed the user (a success may be recorded
    /// without its artifact list: use `shown`)
    pub last_obs: Option<Obs>,
    /// the last model events and what the real categorisation made of them
    pub last_events: Vec<Ev>,
    pub last_changes: Vec<String>,
    pub transitions: u64,
}

pub fn check_disk(root: &Path, tree: &Tree) {
    let disk = Tree::read_disk(root);
    if disk != tree.as_disk() {
        let d: Vec<&String> = disk.keys().collect();
        machinery_error(&format!("the disk and the abstract tree disagree: disk has {d:?}, tree is {}", tree.render()));
    }
}

impl Session {
    /// The watch command's start-up on the directory as it is: `create_config`,
    /// `CompilerState::new`, and (root "compiled") the first compile. Err = the project cannot be
    /// loaded.
    pub fn attach(root: &Path, tree: &Tree, first_compile: bool) -> Result<Session, String> {
        let (config, mut state) = load(root)?;
        let last_obs = first_compile.then(|| compile_obs(&mut state, root, false));
        Ok(Session { root: root.to_path_buf(), cwd: cwd_of(root), config, state, watcher: WatcherModel::created_on(tree), tree: tree.clone(), last_obs, last_events: vec![], last_changes: vec![], transitions: 0 })
    }

    pub fn sources(&self) -> Sources {
        sources_of(&self.state)
    }

    /// What the last (re)compile of this session shows the user, with the artifact directory
    /// read now.
    pub fn shown(&self) -> Option<Obs> {
        match &self.last_obs {
            Some(Obs::Ok(_)) => Some(artifacts_obs(&self.root)),
            other => other.clone(),
        }
    }

    /// `read_directory`: read the artifact directory after a successful recompile (needed when
    /// the step is judged in full; otherwise `Recompiled(Obs::Ok(vec![]))` stands for success).
    pub fn step(&mut self, op: &Op, read_directory: bool) -> StepResult {
        self.transitions += 1;
        self.last_events.clear();
        self.last_changes.clear();
        if let Op::Gc = op {
            // the interval has elapsed: the real method then collects
            match Instant::now().checked_sub(Duration::from_secs(61)) {
                Some(t) => {
                    self.state.last_gc_run = t;
                    self.state.run_garbage_collection();
                }
                None => self.state.db.run_garbage_collection(),
            }
            return StepResult::NoRecompile;
        }
        let root = self.root.clone();
        let art = ArtifactDirState::of(&root);
        let events = model_events(op, &self.tree, &mut self.watcher, art, &root);
        op.apply_disk(&root);
        op.apply_abstract(&mut self.tree);
        self.last_events = events.clone();
        let debounced: Vec<_> = events.iter().map(|e| e.to_debounced()).collect();
        let changes = match catch_unwind(AssertUnwindSafe(|| verif_categorize_and_filter_events(&debounced, &self.config))) {
            Err(p) => return StepResult::Terminated("panic-in-categorize".into(), normalise(&panic_message(&*p), &root)),
            Ok(None) => return StepResult::NoRecompile,
            Ok(Some(c)) => c,
        };
        self.last_changes = changes.iter().map(|(e, k)| normalise(&format!("{e:?} as {}", kind_name(k)), &root)).collect();
        if has_config_changes(&changes) {
            let cwd = self.cwd;
            let location = self.config.config_location.clone();
            let config = match catch_unwind(AssertUnwindSafe(|| create_config(&location, cwd))) {
                Err(p) => return StepResult::Terminated("create-config-panic".into(), normalise(&panic_message(&*p), &root)),
                Ok(c) => c,
            };
            match catch_unwind(AssertUnwindSafe(|| CompilerState::new(config.clone(), cwd))) {
                Err(p) => return StepResult::Terminated("panic-in-new-state".into(), normalise(&panic_message(&*p), &root)),
                Ok(Err(e)) => return StepResult::Terminated("new-state-error".into(), normalise(&e.to_string(), &root)),
                Ok(Ok(s)) => self.state = s,
            }
            self.config = config;
            self.watcher = WatcherModel::created_on(&self.tree);
        } else {
            match catch_unwind(AssertUnwindSafe(|| update_sources(&mut self.state.db, &changes))) {
                Err(p) => return StepResult::Terminated("panic-in-update-sources".into(), normalise(&panic_message(&*p), &root)),
                Ok(Err(es)) => return StepResult::Terminated("update-sources-error".into(), normalise(&es.iter().map(|e| e.to_string()).collect::<Vec<_>>().join(" | "), &root)),
                Ok(Ok(())) => {}
            }
        }
        let obs = compile_obs(&mut self.state, &root, read_directory);
        if let Obs::Panic(m) = &obs {
            return StepResult::Terminated("panic-in-compile".into(), m.clone());
        }
        self.state.run_garbage_collection();
        self.last_obs = Some(obs.clone());
        StepResult::Recompiled(obs)
    }
}

fn kind_name(k: &isograph_compiler::watch::ChangedFileKind) -> &'static str {
    use isograph_compiler::watch::ChangedFileKind::*;
    match k {
        Config => "Config",
        Schema => "Schema",
        SchemaExtension => "SchemaExtension",
        JavaScriptSourceFile => "JavaScriptSourceFile",
        JavaScriptSourceFolder => "JavaScriptSourceFolder",
    }
}

//! The EVENT MODEL: which `DebouncedEvent`s the debounced inotify watcher of
//! `create_debounced_file_watcher` delivers for one file-system operation, given the tree before
//! the operation and which of the single-file watches (config, schema, extension) are still
//! alive. `Access(..)` events (open / close) are not modelled: the compiler ignores them and they
//! depend on who reads the files. The model is bound to the real watcher by `conform.rs`.
//!
//! Assumption made explicit: every operation happens in its own debounce window (the tree is
//! quiet for more than 100 ms between two letters), except the letter `MkdirWrite`, which is a
//! burst of two system calls.

use crate::tree::{ARTIFACT_DIR, CONFIG, EXT, Op, SCHEMA, STRAY, Tree};
use notify::event::{CreateKind, DataChange, MetadataKind, ModifyKind, RemoveKind, RenameMode};
use notify::{Event, EventKind};
use notify_debouncer_full::DebouncedEvent;
use serde::{Deserialize, Serialize};
use std::collections::BTreeSet;
use std::path::{Path, PathBuf};
use std::time::Instant;

#[derive(Debug, Clone, Copy, PartialEq, Eq, PartialOrd, Ord, Hash, Serialize, Deserialize)]
pub enum K {
    CreateFile,
    CreateFolder,
    CreateOther,
    ModifyData,
    ModifyMetadata,
    RenameFrom,
    RenameTo,
    RenameBoth,
    RenameAny,
    RemoveFile,
    RemoveFolder,
    RemoveAny,
    RemoveOther,
    Access,
    Other,
}

/// One debounced event: kind and paths relative to the project directory.
#[derive(Debug, Clone, PartialEq, Eq, PartialOrd, Ord, Hash, Serialize, Deserialize)]
pub struct Ev {
    pub kind: K,
    pub paths: Vec<PathBuf>,
}

impl Ev {
    pub fn new(kind: K, root: &Path, paths: &[&str]) -> Ev {
        Ev { kind, paths: paths.iter().map(|p| root.join(p)).collect() }
    }

    pub fn from_debounced(e: &DebouncedEvent) -> Ev {
        let kind = match e.event.kind {
            EventKind::Create(CreateKind::File) => K::CreateFile,
            EventKind::Create(CreateKind::Folder) => K::CreateFolder,
            EventKind::Create(_) => K::CreateOther,
            EventKind::Modify(ModifyKind::Data(_)) => K::ModifyData,
            EventKind::Modify(ModifyKind::Metadata(_)) => K::ModifyMetadata,
            EventKind::Modify(ModifyKind::Name(RenameMode::From)) => K::RenameFrom,
            EventKind::Modify(ModifyKind::Name(RenameMode::To)) => K::RenameTo,
            EventKind::Modify(ModifyKind::Name(RenameMode::Both)) => K::RenameBoth,
            EventKind::Modify(ModifyKind::Name(RenameMode::Any)) => K::RenameAny,
            EventKind::Remove(RemoveKind::File) => K::RemoveFile,
            EventKind::Remove(RemoveKind::Folder) => K::RemoveFolder,
            EventKind::Remove(RemoveKind::Any) => K::RemoveAny,
            EventKind::Remove(RemoveKind::Other) => K::RemoveOther,
            EventKind::Access(_) => K::Access,
            _ => K::Other,
        };
        Ev { kind, paths: e.event.paths.clone() }
    }

    pub fn to_debounced(&self) -> DebouncedEvent {
        let kind = match self.kind {
            K::CreateFile => EventKind::Create(CreateKind::File),
            K::CreateFolder => EventKind::Create(CreateKind::Folder),
            K::CreateOther => EventKind::Create(CreateKind::Other),
            K::ModifyData => EventKind::Modify(ModifyKind::Data(DataChange::Any)),
            K::ModifyMetadata => EventKind::Modify(ModifyKind::Metadata(MetadataKind::Any)),
            K::RenameFrom => EventKind::Modify(ModifyKind::Name(RenameMode::From)),
            K::RenameTo => EventKind::Modify(ModifyKind::Name(RenameMode::To)),
            K::RenameBoth => EventKind::Modify(ModifyKind::Name(RenameMode::Both)),
            K::RenameAny => EventKind::Modify(ModifyKind::Name(RenameMode::Any)),
            K::RemoveFile => EventKind::Remove(RemoveKind::File),
            K::RemoveFolder => EventKind::Remove(RemoveKind::Folder),
            K::RemoveAny => EventKind::Remove(RemoveKind::Any),
            K::RemoveOther => EventKind::Remove(RemoveKind::Other),
            K::Access | K::Other => EventKind::Other,
        };
        let mut event = Event::new(kind);
        for p in &self.paths {
            event = event.add_path(p.clone());
        }
        DebouncedEvent::new(event, Instant::now())
    }

    pub fn render(&self, root: &Path) -> String {
        let ps: Vec<String> = self.paths.iter().map(|p| p.strip_prefix(root).map(|r| r.display().to_string()).unwrap_or_else(|_| p.display().to_string())).collect();
        format!("{:?}[{}]", self.kind, ps.join(" -> "))
    }
}

pub fn render_events(evs: &[Ev], root: &Path) -> String {
    format!("[{}]", evs.iter().map(|e| e.render(root)).collect::<Vec<_>>().join(", "))
}

/// The watcher as the model sees it: which single-file (inode) watches still deliver events.
#[derive(Debug, Clone, PartialEq, Eq)]
pub struct WatcherModel {
    pub alive: BTreeSet<&'static str>,
}

const FILE_WATCHES: [&str; 3] = [CONFIG, SCHEMA, EXT];

impl WatcherModel {
    /// A watcher created while `t` is on disk (all three files must exist, as in the real loop).
    pub fn created_on(t: &Tree) -> WatcherModel {
        WatcherModel { alive: FILE_WATCHES.iter().copied().filter(|f| t.is_file(f)).collect() }
    }
}

fn under_src(p: &str) -> bool {
    p.starts_with("src/")
}

/// What the model needs to know about the disk beyond the abstract tree.
#[derive(Debug, Clone, Copy, PartialEq, Eq, PartialOrd, Ord, Hash, Serialize, Deserialize)]
pub struct ArtifactDirState {
    pub dir_exists: bool,
    pub stray_exists: bool,
}

impl ArtifactDirState {
    pub fn of(root: &Path) -> Self {
        ArtifactDirState { dir_exists: root.join(ARTIFACT_DIR).is_dir(), stray_exists: root.join(STRAY).is_file() }
    }
}

fn is_source_name(p: &str) -> bool {
    matches!(p.rsplit('.').next(), Some("ts") | Some("tsx") | Some("js") | Some("jsx")) && p.contains('.')
}

/// The shape of a letter: the operation and the role of its paths (inside the watched tree as a
/// source / non-source file or a folder, one of the singly watched files and whether its watch is
/// still alive, or outside every watched path), without concrete names and contents.
pub fn op_shape(op: &Op, pre: &Tree, w: &WatcherModel) -> String {
    let file = |p: &str| -> String {
        if p.starts_with(&format!("{ARTIFACT_DIR}/")) {
            "artifact-dir".into()
        } else if under_src(p) {
            if is_source_name(p) { "tree-source".into() } else { "tree-nonsource".into() }
        } else if FILE_WATCHES.contains(&p) {
            let role = match p {
                CONFIG => "config",
                SCHEMA => "schema",
                _ => "extension",
            };
            format!("{role}-{}", if w.alive.contains(p) { "watched" } else { "unwatched" })
        } else {
            "outside".into()
        }
    };
    let dir = |d: &str| -> &'static str { if under_src(d) { "tree" } else { "outside" } };
    match op {
        Op::Write(p, _) => format!("write({},{})", file(p), if pre.is_file(p) { "existing" } else { "new" }),
        Op::Delete(p) => format!("delete({})", file(p)),
        Op::Rename(a, b) => format!("rename({}->{},{})", file(a), file(b), if pre.is_file(b) { "over" } else { "new" }),
        Op::Replace(p, _) => format!("replace-by-rename({},{})", file(p), if pre.is_file(p) { "existing" } else { "new" }),
        Op::Mkdir(d) => format!("mkdir({})", dir(d)),
        Op::MkdirWrite(d, f, _) => format!("mkdir+write({},{})", dir(d), file(f)),
        Op::RmR(d) => format!("rm-r({})", dir(d)),
        Op::MvDir(a, b) => format!("mvdir({}->{})", dir(a), dir(b)),
        Op::Stray(_) => "write(artifact-dir)".into(),
        Op::Gc => "gc".into(),
    }
}

/// The case of the model an operation falls into (used to pick conformance scenarios that cover
/// every case at least once).
pub fn case_key(op: &Op, pre: &Tree, w: &WatcherModel, art: ArtifactDirState) -> String {
    let shape = op_shape(op, pre, w);
    match op {
        Op::RmR(d) => format!("{shape}:{}children", pre.below(d).len().min(2)),
        Op::Stray(_) => format!("{shape}:dir={},file={}", art.dir_exists, art.stray_exists),
        _ => shape,
    }
}

/// The debounced events (without `Access` events) delivered for `op` performed on `pre`.
/// Updates the liveness of the single-file watches.
pub fn model_events(op: &Op, pre: &Tree, w: &mut WatcherModel, art: ArtifactDirState, root: &Path) -> Vec<Ev> {
    let ev = |k: K, ps: &[&str]| Ev::new(k, root, ps);
    match op {
        Op::Write(p, _) => {
            if under_src(p) {
                if pre.is_file(p) { vec![ev(K::ModifyData, &[p])] } else { vec![ev(K::CreateFile, &[p])] }
            } else if FILE_WATCHES.contains(&p.as_str()) {
                // an inode watch: it reports writes to the watched inode only; a file created at
                // the path after the watched inode was unlinked is a new inode nobody watches
                if pre.is_file(p) && w.alive.contains(p.as_str()) { vec![ev(K::ModifyData, &[p])] } else { vec![] }
            } else {
                vec![]
            }
        }
        Op::Delete(p) => {
            if under_src(p) {
                vec![ev(K::RemoveFile, &[p])]
            } else if w.alive.remove(p.as_str()) {
                vec![ev(K::RemoveFile, &[p])]
            } else {
                vec![]
            }
        }
        Op::Rename(a, b) => match (under_src(a), under_src(b)) {
            (true, true) => vec![ev(K::RenameBoth, &[a, b])],
            (true, false) => vec![ev(K::RenameFrom, &[a])],
            (false, true) => vec![ev(K::RenameTo, &[b])],
            (false, false) => vec![],
        },
        Op::Replace(p, _) => {
            if under_src(p) {
                vec![ev(K::RenameTo, &[p])]
            } else if pre.is_file(p) && w.alive.remove(p.as_str()) {
                // the watched inode loses its last link
                vec![ev(K::RemoveFile, &[p])]
            } else {
                vec![]
            }
        }
        Op::Mkdir(d) => {
            if under_src(d) { vec![ev(K::CreateFolder, &[d])] } else { vec![] }
        }
        Op::MkdirWrite(d, _f, _) => {
            // the watch on the new folder is added after the batch of raw events that announced
            // the folder has been read: the file written right after mkdir is not reported
            if under_src(d) { vec![ev(K::CreateFolder, &[d])] } else { vec![] }
        }
        Op::RmR(d) => {
            // the events of the children are dropped by the debouncer when the folder's own
            // remove event arrives
            if under_src(d) { vec![ev(K::RemoveFolder, &[d])] } else { vec![] }
        }
        Op::MvDir(a, b) => match (under_src(a), under_src(b)) {
            (true, true) => vec![ev(K::RenameBoth, &[a, b])],
            (true, false) => vec![ev(K::RenameFrom, &[a])],
            (false, true) => vec![ev(K::RenameTo, &[b])],
            (false, false) => vec![],
        },
        Op::Stray(_) => {
            if !art.dir_exists {
                vec![ev(K::CreateFolder, &[ARTIFACT_DIR])]
            } else if art.stray_exists {
                vec![ev(K::ModifyData, &[STRAY])]
            } else {
                vec![ev(K::CreateFile, &[STRAY])]
            }
        }
        Op::Gc => vec![],
    }
}

//! A real `notify-debouncer-full` watcher built exactly as
//! `isograph_compiler::watch::create_debounced_file_watcher` builds it (100 ms debounce, default
//! tick, non-recursive on the config file, recursive on the project root, non-recursive on the
//! schema and on every extension, in that order), recording the debounced events it delivers.

use crate::events::Ev;
use isograph_config::CompilerConfig;
use notify::{RecommendedWatcher, RecursiveMode};
use notify_debouncer_full::{DebounceEventResult, Debouncer, RecommendedCache, new_debouncer};
use std::sync::mpsc::{Receiver, channel};
use std::time::{Duration, Instant};

pub struct RealWatcher {
    rx: Receiver<DebounceEventResult>,
    _debouncer: Debouncer<RecommendedWatcher, RecommendedCache>,
}

impl RealWatcher {
    pub fn start(config: &CompilerConfig) -> Result<RealWatcher, String> {
        let (tx, rx) = channel();
        let mut watcher = new_debouncer(Duration::from_millis(100), None, move |r: DebounceEventResult| {
            let _ = tx.send(r);
        })
        .map_err(|e| format!("cannot create the debouncer: {e}"))?;
        watcher.watch(&config.config_location, RecursiveMode::NonRecursive).map_err(|e| format!("watch config: {e}"))?;
        watcher.watch(&config.project_root, RecursiveMode::Recursive).map_err(|e| format!("watch project root: {e}"))?;
        watcher.watch(&config.schema.absolute_path, RecursiveMode::NonRecursive).map_err(|e| format!("watch schema: {e}"))?;
        for extension in &config.schema_extensions {
            watcher.watch(&extension.absolute_path, RecursiveMode::NonRecursive).map_err(|e| format!("watch extension: {e}"))?;
        }
        Ok(RealWatcher { rx, _debouncer: watcher })
    }

    /// Everything delivered until the watcher has been silent for `quiet` (at least `min_wait` in
    /// total): (batches, watcher errors).
    pub fn collect(&self, min_wait: Duration, quiet: Duration) -> (Vec<Vec<Ev>>, Vec<String>) {
        let start = Instant::now();
        let mut last = Instant::now();
        let mut batches = vec![];
        let mut errors = vec![];
        loop {
            match self.rx.recv_timeout(Duration::from_millis(20)) {
                Ok(Ok(events)) => {
                    last = Instant::now();
                    batches.push(events.iter().map(Ev::from_debounced).collect());
                }
                Ok(Err(es)) => {
                    last = Instant::now();
                    errors.extend(es.iter().map(|e| e.to_string()));
                }
                Err(_) => {
                    if start.elapsed() >= min_wait && last.elapsed() >= quiet {
                        return (batches, errors);
                    }
                }
            }
        }
    }
}

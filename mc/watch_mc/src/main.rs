//! watch_mc — C20: watch mode produces what a fresh batch compile would.
//! Explicit-state exploration of histories of file-system operations on a real project tree,
//! driven through an event model of the debounced inotify watcher (bound to the real watcher by
//! a conformance run), the real event categorisation, `update_sources`, `compile` and garbage
//! collection, compared after every step with a fresh batch compile of the same disk contents.

mod c20;
mod conform;
mod events;
mod par;
mod realwatch;
mod session;
mod tree;

use mc_core::*;

fn main() {
    let args = Args::parse();
    let code = match args.property.as_str() {
        "C20" => c20::main(&args),
        // the conformance run alone (it is also the first phase of C20): prints every step on
        // which the real watcher and the event model disagree
        "conform" => {
            quiet_panics();
            let level = args.tier.pick(0, 1);
            let r = conform::run(&tree::alphabet(level), 2, args.tier == Tier::Thorough, args.jobs);
            println!("{} scenarios, {} steps validated against the real watcher, {}/{} model cases covered, {} steps delivered in more than one batch; mkdir+write: file event lost (= model) {} times, delivered {} times", r.scenarios, r.steps_validated, r.cases_covered, r.cases_total, r.split_batches, r.burst_lost, r.burst_delivered);
            for m in &r.mismatches {
                println!("EVENT-MODEL-MISMATCH {m}");
            }
            if let Some(m) = &r.machinery {
                machinery_error(m);
            }
            if r.mismatches.is_empty() { 0 } else { 2 }
        }
        _ => machinery_error("watch_mc serves C20"),
    };
    std::process::exit(code);
}

//! Conformance of the event model with the real debounced inotify watcher.
//!
//! A scenario is a history of file-system letters. It is performed step by step on a scratch
//! project under a real watcher (same construction as `create_debounced_file_watcher`), with a
//! quiet period after each step; the events delivered for each step (all batches of the step
//! merged, `Access` events dropped) must equal the model's events for that step. When a step
//! changes the config file the watcher is re-created, as `handle_watch_command` does.

use crate::events::{ArtifactDirState, Ev, K, WatcherModel, case_key, model_events, render_events};
use crate::realwatch::RealWatcher;
use crate::tree::{CONFIG, Op, Tree, render_history};
use common_lang_types::CurrentWorkingDirectory;
use intern::string_key::Intern;
use isograph_config::create_config;
use serde_json::{Value, json};
use std::collections::{BTreeMap, BTreeSet};
use std::path::Path;
use std::time::Duration;

pub struct StepReport {
    pub index: usize,
    pub op: Op,
    pub case: String,
    pub model: Vec<Ev>,
    pub real: Vec<Ev>,
    pub batches: usize,
}

pub struct ScenarioReport {
    pub history: Vec<Op>,
    pub steps: Vec<StepReport>,
    /// set when the watcher could not be created or reported errors
    pub machinery: Option<String>,
}

impl StepReport {
    /// The one letter whose events depend on a race inside notify: the watch on a new folder is
    /// added after the raw events announcing the folder have been read, so a file written right
    /// after `mkdir` is reported only if the watcher thread wins the race against the writer
    /// (seen when the machine is heavily loaded). The model takes the event as lost; a run in
    /// which it is delivered is neither a confirmation nor a mismatch.
    pub fn burst_delivered(&self) -> bool {
        match &self.op {
            Op::MkdirWrite(_, f, _) => {
                let extra: Vec<&Ev> = self.real.iter().filter(|e| !self.model.contains(e)).collect();
                !self.model.is_empty() && self.model.iter().all(|e| self.real.contains(e)) && extra.len() == 1 && extra[0].kind == K::CreateFile && extra[0].paths.len() == 1 && extra[0].paths[0].ends_with(f)
            }
            _ => false,
        }
    }
    pub fn conforms(&self) -> bool {
        self.model == self.real
    }
}

impl ScenarioReport {
    pub fn mismatches(&self) -> Vec<&StepReport> {
        self.steps.iter().filter(|s| !s.conforms() && !s.burst_delivered()).collect()
    }
}

fn normalise(mut evs: Vec<Ev>) -> Vec<Ev> {
    evs.retain(|e| e.kind != K::Access);
    evs.sort();
    evs
}

/// Run one scenario under the real watcher. `patience` scales the quiet period (a retry uses more).
pub fn run_scenario(root: &Path, history: &[Op], patience: u32) -> ScenarioReport {
    let mut report = ScenarioReport { history: history.to_vec(), steps: vec![], machinery: None };
    let mut tree = Tree::initial();
    tree.write_to(root);
    let cwd: CurrentWorkingDirectory = root.to_str().unwrap().intern().into();
    // creates the artifact directory, as the real start-up does
    let mut config = create_config(&root.join(CONFIG), cwd);
    let mut watcher = match RealWatcher::start(&config) {
        Ok(w) => w,
        Err(e) => {
            report.machinery = Some(e);
            return report;
        }
    };
    let mut wm = WatcherModel::created_on(&tree);
    // nothing may be pending before the first step
    let (pre, errs) = watcher.collect(Duration::from_millis(150), Duration::from_millis(100));
    if !errs.is_empty() || pre.iter().flatten().any(|e| e.kind != K::Access) {
        report.machinery = Some(format!("events before the first operation: {pre:?} {errs:?}"));
        return report;
    }
    for (index, op) in history.iter().enumerate() {
        if !op.enabled(&tree) {
            report.machinery = Some(format!("scenario applies a disabled operation: {}", render_history(history)));
            return report;
        }
        if !op.is_fs() {
            continue;
        }
        let art = ArtifactDirState::of(root);
        let case = case_key(op, &tree, &wm, art);
        let model = normalise(model_events(op, &tree, &mut wm, art, root));
        op.apply_disk(root);
        op.apply_abstract(&mut tree);
        let (batches, errs) = watcher.collect(Duration::from_millis(300 * patience as u64), Duration::from_millis(200 * patience as u64));
        if !errs.is_empty() {
            report.machinery = Some(format!("the watcher reported errors: {errs:?}"));
            return report;
        }
        let n_batches = batches.iter().filter(|b| b.iter().any(|e| e.kind != K::Access)).count();
        let real = normalise(batches.into_iter().flatten().collect());
        let config_changed = model.iter().any(|e| e.paths.last().is_some_and(|p| p == &root.join(CONFIG)));
        report.steps.push(StepReport { index, op: op.clone(), case, model, real, batches: n_batches });
        if config_changed {
            // handle_watch_command: stop the watcher and create a new one from the re-read config
            drop(watcher);
            config = match std::panic::catch_unwind(|| create_config(&root.join(CONFIG), cwd)) {
                Ok(c) => c,
                // the real watch command dies here (create_config panics on a missing schema or
                // extension): nothing is watched any more
                Err(_) => return report,
            };
            watcher = match RealWatcher::start(&config) {
                Ok(w) => w,
                Err(e) => {
                    report.machinery = Some(e);
                    return report;
                }
            };
            wm = WatcherModel::created_on(&tree);
        }
    }
    report
}

/// All fs-only histories of length <= depth over the alphabet, with the model case of every step.
fn histories_with_cases(alphabet: &[Op], depth: usize, root: &Path) -> Vec<(Vec<Op>, Vec<String>)> {
    let art = ArtifactDirState { dir_exists: true, stray_exists: false };
    let mut out = vec![];
    let mut frontier: Vec<(Vec<Op>, Vec<String>, Tree, WatcherModel, ArtifactDirState)> = vec![(vec![], vec![], Tree::initial(), WatcherModel::created_on(&Tree::initial()), art)];
    for _ in 0..depth {
        let mut next = vec![];
        for (h, cases, t, w, art) in &frontier {
            for op in alphabet.iter().filter(|o| o.is_fs() && o.enabled(t)) {
                let mut w2 = w.clone();
                let mut art2 = *art;
                let case = case_key(op, t, w, *art);
                let evs = model_events(op, t, &mut w2, *art, root);
                let mut t2 = t.clone();
                op.apply_abstract(&mut t2);
                if matches!(op, Op::Stray(_)) {
                    art2.stray_exists = true;
                }
                if evs.iter().any(|e| e.paths.last().is_some_and(|p| p == &root.join(CONFIG))) {
                    w2 = WatcherModel::created_on(&t2);
                }
                let mut h2 = h.clone();
                h2.push(op.clone());
                let mut c2 = cases.clone();
                c2.push(format!("{}|{}", op_shape(op), case));
                out.push((h2.clone(), c2.clone()));
                next.push((h2, c2, t2, w2, art2));
            }
        }
        frontier = next;
    }
    out
}

/// the letter without its content argument
fn op_shape(op: &Op) -> String {
    match op {
        Op::Write(p, _) => format!("write({p})"),
        Op::Replace(p, _) => format!("replace({p})"),
        Op::MkdirWrite(d, _, _) => format!("mkdir+write({d})"),
        Op::Stray(_) => "stray".into(),
        other => other.render(),
    }
}

/// Scenarios: every history of length 1, plus, greedily, the shortest histories needed so that
/// every (letter, model case) pair reachable within `depth` steps is performed at least once;
/// with `all`, every history up to `depth`.
pub fn scenarios(alphabet: &[Op], depth: usize, all: bool) -> (Vec<Vec<Op>>, usize) {
    let hs = histories_with_cases(alphabet, depth, Path::new("/x"));
    let total_cases: BTreeSet<&String> = hs.iter().flat_map(|(_, c)| c.iter()).collect();
    if all {
        return (hs.iter().map(|(h, _)| h.clone()).collect(), total_cases.len());
    }
    let mut covered: BTreeSet<&String> = BTreeSet::new();
    let mut out = vec![];
    for (h, cases) in &hs {
        if h.len() == 1 || cases.iter().any(|c| !covered.contains(c)) {
            covered.extend(cases.iter());
            out.push(h.clone());
        }
    }
    (out, total_cases.len())
}

pub struct ConformanceResult {
    pub scenarios: usize,
    pub steps_validated: u64,
    pub cases_covered: usize,
    pub cases_total: usize,
    pub split_batches: u64,
    /// mkdir+write steps on which the file's event was lost (= model) / delivered (race won)
    pub burst_lost: u64,
    pub burst_delivered: u64,
    pub mismatches: Vec<Value>,
    pub machinery: Option<String>,
    pub samples: Vec<Value>,
}

pub fn run(alphabet: &[Op], depth: usize, all: bool, jobs: usize) -> ConformanceResult {
    let (scs, cases_total) = scenarios(alphabet, depth, all);
    let results = crate::par::par_map_with(
        &scs,
        jobs,
        |j| mc_core::Scratch::new(&format!("watch-conf-{j}")),
        |scratch, h| {
            let root = scratch.path().join("proj");
            let guarded = |patience: u32| -> ScenarioReport {
                std::panic::catch_unwind(std::panic::AssertUnwindSafe(|| run_scenario(&root, h, patience)))
                    .unwrap_or_else(|p| ScenarioReport { history: h.clone(), steps: vec![], machinery: Some(format!("panic while running [{}] under the real watcher: {}", render_history(h), mc_core::panic_message(&*p))) })
            };
            let mut r = guarded(1);
            // the only tolerated flakiness is scheduling delay: retry twice with more patience
            for patience in [3, 6] {
                if r.machinery.is_none() && r.mismatches().is_empty() {
                    break;
                }
                r = guarded(patience);
            }
            let root_s = root.clone();
            (r, root_s)
        },
    );
    let mut out = ConformanceResult { scenarios: scs.len(), steps_validated: 0, cases_covered: 0, cases_total, split_batches: 0, burst_lost: 0, burst_delivered: 0, mismatches: vec![], machinery: None, samples: vec![] };
    let mut covered = BTreeSet::new();
    let mut by_case: BTreeMap<String, Value> = BTreeMap::new();
    for (r, root) in &results {
        if let Some(m) = &r.machinery {
            out.machinery.get_or_insert(m.clone());
            continue;
        }
        for s in &r.steps {
            if s.burst_delivered() {
                out.burst_delivered += 1;
            } else if s.conforms() {
                if matches!(s.op, Op::MkdirWrite(..)) {
                    out.burst_lost += 1;
                }
                out.steps_validated += 1;
                covered.insert(format!("{}|{}", op_shape(&s.op), s.case));
                if s.batches > 1 {
                    out.split_batches += 1;
                }
                by_case.entry(s.case.clone()).or_insert_with(|| json!({"after": render_history(&r.history[..s.index]), "op": s.op.render(), "events": render_events(&s.real, root)}));
            } else {
                out.mismatches.push(json!({"history": render_history(&r.history), "op": s.op.render(), "case": s.case, "model": render_events(&s.model, root), "real_watcher": render_events(&s.real, root)}));
            }
        }
    }
    // the racy letter must have been seen behaving as modelled at least once in this run
    if out.burst_lost == 0 && out.machinery.is_none() {
        if let Some(h) = scs.iter().find(|h| matches!(h.last(), Some(Op::MkdirWrite(..)))) {
            let scratch = mc_core::Scratch::new("watch-conf-burst");
            let root = scratch.path().join("proj");
            for _ in 0..20 {
                let r = run_scenario(&root, h, 1);
                if r.machinery.is_none() && r.steps.iter().all(|s| s.conforms()) {
                    out.burst_lost += 1;
                    for s in &r.steps {
                        out.steps_validated += 1;
                        covered.insert(format!("{}|{}", op_shape(&s.op), s.case));
                    }
                    break;
                }
            }
            if out.burst_lost == 0 {
                out.machinery = Some("in this run the real watcher never lost the event of a file written right after mkdir (20 more attempts): the model of the letter mkdir+write is not confirmed on this machine now".into());
            }
        }
    }
    out.cases_covered = covered.len();
    out.samples = by_case.into_values().collect();
    out
}
